//! C11 — on-chain conclusions depend only on the chain, not on how it was delivered.
//!
//! Scenario (seeded): two real nodes, one legacy (non-anchor) channel, 0–3 HTLCs in flight (some with
//! the preimage already known to the recipient, some below the dust limit), one side force-closes.
//! A *reference run* (whole blocks, one at a time) mines the transactions the nodes broadcast at
//! randomly delayed heights and thereby fixes ONE final chain.  That chain is then delivered to FRESH
//! copies of monitor+manager (the deterministic prefix is re-run in a new network) under each of the
//! eleven `ConnectStyle`s of ln::functional_test_utils, and — for fork shapes — after connecting and
//! disconnecting a competing block sequence of depth 1..=ANTI_REORG_DELAY.
//!
//! Oracle (implementation only, metamorphic): all deliveries of one (scenario, fork shape) group must
//! agree, at every checkpoint height (fork-free group) and at the end (all groups), on
//! get_claimable_balances, get_relevant_txids, current_best_block, get_outputs_to_watch keys, the
//! awaiting-threshold queue and the irrevocable conclusions (hook), the multiset of Events, the height
//! at which each Event first appears, list_channels().len().
//!
//! Fork groups are delivered twice: with monitor/manager events polled after every delivery call (a
//! running background processor; this is what the model is compared with) and polled only at the
//! checkpoints (a reorg processed in one batch).  Two genuine deviations found this way are tagged
//! KF-C11-1 / KF-C11-2 (see known_findings.txt) and reported once per (scenario, fork shape).
//! In fork groups the helper's `TransactionsFirstReorgsOnlyTip` disconnection is followed by
//! `best_block_updated(fork point)` (see `Replay::fork`).
//!
//! Correspondence with the Lean model (model `c11`): every util call is written as the abstract ops
//! the style performs on the monitor; the model answers the monitor's (best, awaiting, matured) after
//! the call; the real answer comes from `verif_hooks::monitor_onchain_view`.
//!   <n> reset <best> | <n> tx <id> <kind>:<csv|-> ... | <n> block|conf <h> <ids..> | <n> best <h>
//!   | <n> disc <h> | <n> unconf <id>          (n = 0|1: which party's monitor)
use ldk_verif_harness::common::*;
use ldk_verif_harness::sim::*;
use std::collections::{BTreeMap, HashMap, HashSet};
use std::io::Write;
use std::panic::AssertUnwindSafe;

use bitcoin::{Block, OutPoint, Transaction, Txid};
use lightning::chain::channelmonitor::ANTI_REORG_DELAY;
use lightning::events::Event;
use lightning::ln::channelmanager::BREAKDOWN_TIMEOUT;
use lightning::ln::functional_test_utils::*;
use lightning::ln::msgs::BaseMessageHandler;
use lightning::ln::types::ChannelId;
use lightning::ln::verif_hooks as vh;

const STYLES: [ConnectStyle; 11] = [
	ConnectStyle::FullBlockViaListen,
	ConnectStyle::BestBlockFirst,
	ConnectStyle::BestBlockFirstSkippingBlocks,
	ConnectStyle::BestBlockFirstReorgsOnlyTip,
	ConnectStyle::TransactionsFirst,
	ConnectStyle::TransactionsFirstSkippingBlocks,
	ConnectStyle::TransactionsDuplicativelyFirstSkippingBlocks,
	ConnectStyle::HighlyRedundantTransactionsFirstSkippingBlocks,
	ConnectStyle::TransactionsFirstReorgsOnlyTip,
	ConnectStyle::ReplayedFullBlockViaListen,
	ConnectStyle::FullBlockDisconnectionsSkippingViaListen,
];

const FORK_TIME_OFFSET: u32 = 7777;

/// known-finding tags (matched as substrings by ./check against known_findings.txt)
const KF1: &str = "KF-C11-1 re-confirmed preimage claim not re-queued: a pending MonitorEvent::HTLCEvent for the same source suppresses the HTLCSpendConfirmation entry when the claim transaction is confirmed again after a reorg (monitor events polled only after the reorg)";
const KF2: &str = "KF-C11-2 duplicate timelocked claim package after the commitment transaction is reorged out and re-confirmed (an aggregated locktimed package is not recognised as equivalent to the regenerated single-outpoint requests): debug_assert pending_claim_requests.get(&claim_id).is_none() fails at the timelock height";

#[derive(Clone, Debug)]
struct Scn {
	seed: u64,
	/// (amount msat, recipient knows the preimage before the close)
	ab: Vec<(u64, bool)>,
	ba: Vec<(u64, bool)>,
	closer: usize,
	gap: u32,
	/// chance (n/4) that an eligible mempool transaction is mined in a given block
	mine_num: u64,
}

#[derive(Clone, Copy, Debug, PartialEq)]
struct Fork { at: u32, depth: u32, variant: u8 }

struct World { net: Net, chan: ChannelId, h0: u32, funding: Txid }

struct Final {
	h0: u32,
	h0_hash: bitcoin::BlockHash,
	/// blocks at heights h0+1 ..= h0+blocks.len()
	blocks: Vec<Block>,
	ids: HashMap<Txid, u32>,
	cat: [BTreeMap<u32, Vec<(u8, Option<u32>)>>; 2],
	checkpoints: Vec<u32>,
	n_txs: usize,
}

struct RunOut {
	/// per node: ids of final-chain transactions whose HTLCSpendConfirmation is neither awaiting nor resolved at the end
	lost: [Vec<u32>; 2],
	/// (checkpoint height, observation of node 0, of node 1)
	obs: Vec<(u32, [String; 2])>,
	end: [String; 2],
}

fn set_style(net: &Net, s: ConnectStyle) { for n in net.nodes.iter() { *n.connect_style.borrow_mut() = s; } }

fn drain(net: &Net, n: usize, out: &mut Vec<String>) {
	for _ in 0..2 {
		let _ = net.nodes[n].node.get_and_clear_pending_msg_events();
		let mut evs = net.nodes[n].node.get_and_clear_pending_events();
		evs.extend(net.nodes[n].chain_monitor.chain_monitor.get_and_clear_pending_events());
		for e in evs {
			let key = match &e {
				Event::SpendableOutputs { outputs, .. } => {
					let mut v: Vec<String> = outputs.iter().map(|o| match o.spendable_outpoint() { op => format!("{}:{}", &op.txid.to_string()[..8], op.index) }).collect();
					v.sort();
					format!("SpendableOutputs[{}]", v.join(","))
				},
				Event::PaymentFailed { payment_hash, reason, .. } => format!("PaymentFailed {} {:?}", payment_hash.map(|h| hex(&h.0[..4])).unwrap_or_default(), reason),
				Event::PaymentPathFailed { payment_hash, payment_failed_permanently, .. } => format!("PaymentPathFailed {} perm={}", hex(&payment_hash.0[..4]), payment_failed_permanently),
				Event::PaymentSent { payment_hash, .. } => format!("PaymentSent {}", hex(&payment_hash.0[..4])),
				Event::PaymentPathSuccessful { .. } => "PaymentPathSuccessful".to_string(),
				Event::PaymentClaimed { payment_hash, .. } => format!("PaymentClaimed {}", hex(&payment_hash.0[..4])),
				Event::HTLCHandlingFailed { .. } => "HTLCHandlingFailed".to_string(),
				Event::ChannelClosed { reason, .. } => format!("ChannelClosed {}", format!("{:?}", reason).chars().take(60).collect::<String>()),
				Event::BumpTransaction(_) => continue,
				other => format!("{:?}", other).chars().take(40).collect::<String>(),
			};
			out.push(key);
		}
	}
	net.nodes[n].chain_monitor.added_monitors.lock().unwrap().clear();
}

fn take_broadcasts(net: &Net, mempool: &mut Vec<Transaction>, seen: &mut HashSet<Txid>) {
	for n in 0..net.nodes.len() {
		let txs: Vec<Transaction> = net.nodes[n].tx_broadcaster.txn_broadcasted.lock().unwrap().drain(..).collect();
		for tx in txs { if seen.insert(tx.compute_txid()) { mempool.push(tx); } }
	}
}

fn kind_code(k: &str) -> u8 {
	match k { "HTLCUpdate" => 0, "MaturingOutput" => 1, "FundingSpendConfirmation" => 2, "HTLCSpendConfirmation" => 3, _ => 4 }
}

fn show_keys(mut ks: Vec<Vec<u64>>) -> String {
	if ks.is_empty() { return "-".to_string(); }
	ks.sort();
	ks.iter().map(|k| k.iter().map(|x| x.to_string()).collect::<Vec<_>>().join(".")).collect::<Vec<_>>().join(",")
}

/// the monitor's (best, awaiting, irrevocable conclusions) in the model's canonical text
fn view_line(net: &Net, n: usize, chan: &ChannelId, ids: &HashMap<Txid, u32>) -> String {
	let mon = net.nodes[n].chain_monitor.chain_monitor.get_monitor(*chan).unwrap();
	let (best, awaiting, fsc, spendable, htlcs) = vh::monitor_onchain_view(&mon);
	let id = |t: &Txid| *ids.get(t).unwrap_or(&999_999) as u64;
	let aw: Vec<Vec<u64>> = awaiting.iter().map(|(t, h, k, thr)| vec![id(t), kind_code(k) as u64, *h as u64, *thr as u64]).collect();
	let mut mat: Vec<Vec<u64>> = vec![];
	if let Some(t) = fsc { mat.push(vec![id(&t), 0]); }
	for t in htlcs.iter() { mat.push(vec![t.as_ref().map(|t| id(t)).unwrap_or(999_998), 1]); }
	for t in spendable.iter() { mat.push(vec![id(t), 2]); }
	format!("best={} aw={} mat={}", best, show_keys(aw), show_keys(mat))
}

/// everything compared across styles for one node
fn observe(net: &Net, n: usize, chan: &ChannelId, ids: &HashMap<Txid, u32>, events: &[String], first_seen: &BTreeMap<String, u32>) -> String {
	let mon = net.nodes[n].chain_monitor.chain_monitor.get_monitor(*chan).unwrap();
	let mut bal: Vec<String> = mon.get_claimable_balances().iter().map(|b| format!("{:?}", b)).collect();
	bal.sort();
	let mut rel: Vec<String> = mon.get_relevant_txids().iter().map(|(t, h, bh)| format!("{}@{}/{}", &t.to_string()[..8], h, bh.map(|b| b.to_string()[..8].to_string()).unwrap_or_default())).collect();
	rel.sort();
	let bb = mon.current_best_block();
	let mut watch: Vec<String> = mon.get_outputs_to_watch().iter().map(|(t, _)| t.to_string()[..8].to_string()).collect();
	watch.sort();
	let mut evs = events.to_vec();
	evs.sort();
	let fs: Vec<String> = first_seen.iter().map(|(k, h)| format!("{}@{}", k, h)).collect();
	format!("{} | bal={:?} | rel={:?} | tip={}@{} | watch={:?} | events={:?} | first={:?} | chans={}", view_line(net, n, chan, ids), bal, rel, &bb.block_hash.to_string()[..8], bb.height, watch, evs, fs, net.nodes[n].node.list_channels().len())
}

/// one routed HTLC of the prefix: (payer, recipient, amount, preimage, hash)
#[derive(Clone)]
struct PayInfo { from: usize, to: usize, amt: u64, pre: lightning::types::payment::PaymentPreimage, hash: lightning::types::payment::PaymentHash }

fn build_prefix(sc: &Scn) -> World { build_prefix_pays(&sc.ab, &sc.ba, sc.closer).0 }

/// the deterministic prefix: channel, HTLCs a->b / b->a (flag: the recipient claims before the close;
/// the fulfill message is never delivered), force-close by `closer`
fn build_prefix_pays(ab: &[(u64, bool)], ba: &[(u64, bool)], closer: usize) -> (World, Vec<PayInfo>) {
	let cfg = test_legacy_channel_config();
	let mut net = Net::new(2, vec![Some(cfg.clone()), Some(cfg)]);
	set_style(&net, ConnectStyle::FullBlockViaListen);
	net.open(0, 1, 1_000_000, 300_000_000);
	let chan = net.chans[0].2;
	let funding = net.nodes[0].node.list_channels()[0].funding_txo.unwrap().txid;
	let mut claims: Vec<(usize, lightning::types::payment::PaymentPreimage)> = vec![];
	let mut pays = vec![];
	for (amt, claimed) in ab.iter() {
		let (pre, hash, _, _) = route_payment(&net.nodes[0], &[&net.nodes[1]], *amt);
		if *claimed { claims.push((1, pre)); }
		pays.push(PayInfo { from: 0, to: 1, amt: *amt, pre, hash });
	}
	for (amt, claimed) in ba.iter() {
		let (pre, hash, _, _) = route_payment(&net.nodes[1], &[&net.nodes[0]], *amt);
		if *claimed { claims.push((0, pre)); }
		pays.push(PayInfo { from: 1, to: 0, amt: *amt, pre, hash });
	}
	for (n, pre) in claims { net.nodes[n].node.claim_funds(pre); }
	let mut sink = vec![];
	for n in 0..2 { drain(&net, n, &mut sink); }
	let peer = net.ids[1 - closer];
	net.nodes[closer].node.force_close_broadcasting_latest_txn(&chan, &peer, "c11".to_string()).unwrap();
	for n in 0..2 { drain(&net, n, &mut sink); }
	let h0 = net.nodes[0].best_block_info().1;
	assert_eq!(h0, net.nodes[1].best_block_info().1);
	(World { net, chan, h0, funding }, pays)
}

fn relevant_ids(block: &Block, ids: &HashMap<Txid, u32>) -> Vec<u32> {
	block.txdata.iter().filter_map(|t| ids.get(&t.compute_txid()).cloned()).collect()
}

/// Reference run: whole blocks one at a time; fixes the final chain, learns the catalog.
fn reference(sc: &Scn, rng: &mut Rng) -> Result<Final, String> {
	let w = build_prefix(sc);
	let net = &w.net;
	let mut mempool: Vec<Transaction> = vec![];
	let mut seen = HashSet::new();
	take_broadcasts(net, &mut mempool, &mut seen);
	let mut confirmed: HashSet<Txid> = HashSet::new();
	confirmed.insert(w.funding);
	let mut spent: HashSet<OutPoint> = HashSet::new();
	let mut ids: HashMap<Txid, u32> = HashMap::new();
	let mut cat: [BTreeMap<u32, Vec<(u8, Option<u32>)>>; 2] = [BTreeMap::new(), BTreeMap::new()];
	let mut blocks: Vec<Block> = vec![];
	let mut interesting: Vec<u32> = vec![];
	let mut prev_view = [view_line(net, 0, &w.chan, &ids), view_line(net, 1, &w.chan, &ids)];
	let commit_height = w.h0 + 1 + sc.gap;
	let mut height = w.h0;
	let mut evs: [Vec<String>; 2] = [vec![], vec![]];
	let h0_hash = net.nodes[0].best_block_hash();
	loop {
		height += 1;
		let mut txs: Vec<Transaction> = vec![];
		if height >= commit_height {
			let mut in_block: HashSet<Txid> = HashSet::new();
			let mut i = 0;
			while i < mempool.len() {
				let tx = &mempool[i];
				let lock_ok = !tx.lock_time.is_block_height() || tx.lock_time.to_consensus_u32() < height;
				let inputs_ok = tx.input.iter().all(|inp| !spent.contains(&inp.previous_output) && (confirmed.contains(&inp.previous_output.txid) || in_block.contains(&inp.previous_output.txid)));
				let is_commitment = tx.input.len() == 1 && tx.input[0].previous_output.txid == w.funding;
				let want = if is_commitment { true } else { rng.chance(sc.mine_num, 4) };
				if lock_ok && inputs_ok && want {
					let tx = mempool.remove(i);
					for inp in tx.input.iter() { spent.insert(inp.previous_output); }
					in_block.insert(tx.compute_txid());
					txs.push(tx);
				} else { i += 1; }
			}
		}
		for tx in txs.iter() { let n = ids.len() as u32 + 1; ids.insert(tx.compute_txid(), n); confirmed.insert(tx.compute_txid()); }
		let block = create_dummy_block(net.nodes[0].best_block_hash(), height, txs.clone());
		let ev_before = [evs[0].len(), evs[1].len()];
		for n in 0..2 { connect_block(&net.nodes[n], &block); drain(net, n, &mut evs[n]); }
		take_broadcasts(net, &mut mempool, &mut seen);
		blocks.push(block);
		let mut changed = !txs.is_empty() || evs[0].len() != ev_before[0] || evs[1].len() != ev_before[1];
		for n in 0..2 {
			let mon = net.nodes[n].chain_monitor.chain_monitor.get_monitor(w.chan).unwrap();
			let (_, awaiting, _, _, _) = vh::monitor_onchain_view(&mon);
			for (t, h, k, thr) in awaiting.iter() {
				if *h != height { continue; }
				let id = match ids.get(t) { Some(i) => *i, None => return Err(format!("awaiting entry for unmined tx {} at {}", t, height)) };
				let csv = if *thr == *h + ANTI_REORG_DELAY - 1 { None } else { Some(*thr + 1 - *h) };
				cat[n].entry(id).or_default().push((kind_code(k), csv));
			}
			let v = view_line(net, n, &w.chan, &ids);
			// best=... changes every block: compare the rest
			if v.split_once(' ').map(|x| x.1.to_string()) != prev_view[n].split_once(' ').map(|x| x.1.to_string()) { changed = true; }
			prev_view[n] = v;
		}
		if changed { interesting.push(height); }
		let idle = prev_view.iter().all(|v| v.contains("aw=- "));
		let any_eligible = mempool.iter().any(|tx| tx.input.iter().all(|inp| !spent.contains(&inp.previous_output) && confirmed.contains(&inp.previous_output.txid)));
		if (height >= commit_height + 8 && idle && !any_eligible) || height >= w.h0 + 420 { break; }
	}
	// a few quiet blocks on top
	for _ in 0..3 {
		height += 1;
		let block = create_dummy_block(net.nodes[0].best_block_hash(), height, vec![]);
		for n in 0..2 { connect_block(&net.nodes[n], &block); drain(net, n, &mut evs[n]); }
		blocks.push(block);
	}
	let mut cps: Vec<u32> = vec![];
	for h in interesting { if h > w.h0 + 1 { cps.push(h - 1); } cps.push(h); }
	cps.push(height);
	cps.sort(); cps.dedup();
	let n_txs = ids.len();
	let h0 = w.h0;
	if std::env::var("VERIF_DEBUG").is_ok() {
		eprintln!("REF scn={:?} h0={} end={} commit_height={}", sc, h0, height, commit_height);
		for (i, b) in blocks.iter().enumerate() { for tx in b.txdata.iter() { eprintln!("  mined h={} id={} in={} out={} lock={}", h0 + 1 + i as u32, ids[&tx.compute_txid()], tx.input.len(), tx.output.len(), tx.lock_time); } }
		for tx in mempool.iter() { eprintln!("  left in mempool: {} in={} lock={} spends {:?}", &tx.compute_txid().to_string()[..8], tx.input.len(), tx.lock_time, tx.input.iter().map(|i| format!("{}:{}", &i.previous_output.txid.to_string()[..8], i.previous_output.vout)).collect::<Vec<_>>()); }
		eprintln!("  cat0={:?} cat1={:?} cps={:?}", cat[0], cat[1], cps);
		eprintln!("  events0={:?} events1={:?}", evs[0], evs[1]);
	}
	std::mem::forget(w);
	Ok(Final { h0, h0_hash, blocks, ids, cat, checkpoints: cps, n_txs })
}

/// abstract ops a style performs on the monitor for one fully delivered block
fn block_ops(style: ConnectStyle, h: u32, ids: &[u32], prior: &[(u32, Vec<u32>)]) -> Vec<String> {
	let idl = |v: &[u32]| v.iter().map(|x| format!(" {}", x)).collect::<String>();
	let conf = format!("conf {}{}", h, idl(ids));
	let best = format!("best {}", h);
	match style {
		ConnectStyle::BestBlockFirst | ConnectStyle::BestBlockFirstSkippingBlocks | ConnectStyle::BestBlockFirstReorgsOnlyTip => vec![best, conf],
		ConnectStyle::TransactionsFirst | ConnectStyle::TransactionsFirstSkippingBlocks | ConnectStyle::TransactionsFirstReorgsOnlyTip => vec![conf, best],
		ConnectStyle::TransactionsDuplicativelyFirstSkippingBlocks => vec![conf.clone(), conf, best],
		ConnectStyle::HighlyRedundantTransactionsFirstSkippingBlocks => {
			let mut v: Vec<String> = prior.iter().map(|(hh, i)| format!("conf {}{}", hh, idl(i))).collect();
			v.push(conf); v.push(best); v
		},
		ConnectStyle::FullBlockViaListen | ConnectStyle::FullBlockDisconnectionsSkippingViaListen => vec![format!("block {}{}", h, idl(ids))],
		ConnectStyle::ReplayedFullBlockViaListen => vec![format!("block {}", h), format!("block {}{}", h, idl(ids))],
	}
}

/// tx-bearing blocks currently in the node's chain (what the "highly redundant" client re-announces)
fn tx_blocks(net: &Net, n: usize, ids: &HashMap<Txid, u32>) -> Vec<(u32, Vec<u32>)> {
	net.nodes[n].blocks.lock().unwrap().iter().filter(|(b, _)| !b.txdata.is_empty()).map(|(b, h)| (*h, relevant_ids(b, ids))).collect()
}

/// disconnect `depth` blocks from node `n` with the library's helper (in the node's style) and return the
/// abstract ops the monitor saw
fn disconnect_with_ops(net: &Net, n: usize, style: ConnectStyle, depth: u32, ids: &HashMap<Txid, u32>) -> Vec<String> {
	let popped: Vec<(Block, u32)> = { let bl = net.nodes[n].blocks.lock().unwrap(); bl[bl.len() - depth as usize..].iter().rev().cloned().collect() };
	disconnect_blocks(&net.nodes[n], depth);
	let mut ops: Vec<String> = vec![];
	for (i, (b, h)) in popped.iter().enumerate() {
		let last = i + 1 == popped.len();
		match style {
			ConnectStyle::FullBlockViaListen | ConnectStyle::ReplayedFullBlockViaListen => ops.push(format!("disc {}", h - 1)),
			ConnectStyle::FullBlockDisconnectionsSkippingViaListen => if last { ops.push(format!("disc {}", h - 1)); },
			ConnectStyle::BestBlockFirstSkippingBlocks | ConnectStyle::TransactionsFirstSkippingBlocks
			| ConnectStyle::HighlyRedundantTransactionsFirstSkippingBlocks | ConnectStyle::TransactionsDuplicativelyFirstSkippingBlocks => if last { ops.push(format!("best {}", h - 1)); },
			ConnectStyle::BestBlockFirstReorgsOnlyTip | ConnectStyle::TransactionsFirstReorgsOnlyTip => for id in relevant_ids(b, ids) { ops.push(format!("unconf {}", id)); },
			ConnectStyle::BestBlockFirst | ConnectStyle::TransactionsFirst => ops.push(format!("best {}", h - 1)),
		}
	}
	if style == ConnectStyle::TransactionsFirstReorgsOnlyTip {
		// A Confirm client must announce the new tip (`best_block_updated` "must be called whenever a
		// new chain tip becomes available"); the helper's ReorgsOnlyTip disconnection does not, and a
		// transactions-first client would then confirm transactions of a *lower* chain against the
		// stale best height — not a delivery the contract allows.  (BestBlockFirstReorgsOnlyTip is
		// left as is: its next call is the best_block_updated of the new block.)
		use lightning::chain::Confirm;
		let (hdr, hh) = { let bl = net.nodes[n].blocks.lock().unwrap(); let l = bl.last().unwrap(); (l.0.header, l.1) };
		net.nodes[n].chain_monitor.chain_monitor.best_block_updated(&hdr, hh);
		net.nodes[n].node.best_block_updated(&hdr, hh);
		ops.push(format!("best {}", hh));
	}
	ops
}

struct Replay<'a> {
	w: World,
	fin: &'a Final,
	style: ConnectStyle,
	tag: String,
	/// monitor/manager events are polled after every delivery call (a running background processor);
	/// otherwise only at the checkpoints (batch processing of a reorg)
	live: bool,
	events: [Vec<String>; 2],
	first_seen: [BTreeMap<String, u32>; 2],
}

impl<'a> Replay<'a> {
	fn poll(&mut self, n: usize, h: u32) {
		let before = self.events[n].len();
		drain(&self.w.net, n, &mut self.events[n]);
		for e in self.events[n][before..].to_vec() { self.first_seen[n].entry(e).or_insert(h); }
	}

	fn emit(&self, rec: &mut Rec, n: usize, ops: Vec<String>, kind: &str) {
		if ops.is_empty() || !self.live { return; }
		let last = ops.len() - 1;
		for (i, op) in ops.iter().enumerate() {
			let line = format!("{} {}", n, op);
			if i < last { rec.directive(&line); } else {
				let ans = view_line(&self.w.net, n, &self.w.chan, &self.fin.ids);
				rec.case(&line, &ans, &format!("{}{:?}/{}", self.tag, self.style, kind), true);
			}
		}
	}

	fn connect_one(&mut self, rec: &mut Rec, block: &Block, h: u32) {
		let ids = relevant_ids(block, &self.fin.ids);
		for n in 0..2 {
			connect_block(&self.w.net.nodes[n], block);
			let mut prior = tx_blocks(&self.w.net, n, &self.fin.ids);
			// the block itself was pushed before delivery and is re-announced too when it has transactions
			if !block.txdata.is_empty() { /* already included by tx_blocks */ } else { prior.retain(|(hh, _)| *hh != h); }
			let ops = block_ops(self.style, h, &ids, &prior);
			self.emit(rec, n, ops, if ids.is_empty() { "connect-empty" } else { "connect-tx" });
			if self.live { self.poll(n, h); }
		}
	}

	/// deliver the final chain's blocks (cur, to] with the library's own helpers
	fn deliver_to(&mut self, rec: &mut Rec, cur: u32, to: u32) -> Result<(), String> {
		let fin = self.fin;
		let mut h = cur + 1;
		while h <= to {
			let b = &fin.blocks[(h - fin.h0 - 1) as usize];
			if !b.txdata.is_empty() {
				self.connect_one(rec, b, h);
				h += 1;
			} else {
				let mut k = 1;
				while h + k <= to && fin.blocks[(h + k - fin.h0 - 1) as usize].txdata.is_empty() { k += 1; }
				for n in 0..2 {
					connect_blocks(&self.w.net.nodes[n], k);
					let prior = tx_blocks(&self.w.net, n, &fin.ids);
					let mut ops = vec![];
					if self.style.skips_blocks() { ops.extend(block_ops(self.style, h + k - 1, &[], &prior)); }
					else { for j in 0..k { ops.extend(block_ops(self.style, h + j, &[], &prior)); } }
					self.emit(rec, n, ops, "connect-empties");
					if self.live { self.poll(n, h + k - 1); }
				}
				h += k;
			}
			let want = fin.blocks[(h - 1 - fin.h0 - 1) as usize].block_hash();
			for n in 0..2 { if self.w.net.nodes[n].best_block_hash() != want { return Err(format!("chain mismatch at {}", h - 1)); } }
		}
		Ok(())
	}

	fn checkpoint(&mut self, h: u32) -> [String; 2] {
		let mut out = [String::new(), String::new()];
		for n in 0..2 {
			self.poll(n, h);
			out[n] = observe(&self.w.net, n, &self.w.chan, &self.fin.ids, &self.events[n], &self.first_seen[n]);
		}
		out
	}

	fn fork(&mut self, rec: &mut Rec, f: Fork) {
		let fin = self.fin;
		let mut fork_blocks: Vec<Block> = vec![];
		for k in 1..=f.depth {
			let h = f.at + k;
			let txs: Vec<Transaction> = match f.variant {
				1 => if k >= 2 { fin.blocks[(h - 1 - fin.h0 - 1) as usize].txdata.clone() } else { vec![] },
				2 => fin.blocks[(h - fin.h0 - 1) as usize].txdata.clone(),
				_ => vec![],
			};
			let prev = fork_blocks.last().map(|b: &Block| b.block_hash()).unwrap_or(self.w.net.nodes[0].best_block_hash());
			fork_blocks.push(create_dummy_block(prev, h + FORK_TIME_OFFSET, txs));
		}
		for (k, b) in fork_blocks.iter().enumerate() { self.connect_one(rec, b, f.at + 1 + k as u32); }
		for n in 0..2 {
			let ops = disconnect_with_ops(&self.w.net, n, self.style, f.depth, &fin.ids);
			self.emit(rec, n, ops, "disconnect");
			if self.live { self.poll(n, f.at); }
		}
	}
}

fn replay(sc: &Scn, fin: &Final, style: ConnectStyle, fork: Option<Fork>, live: bool, rec: &mut Rec) -> Result<RunOut, String> {
	let w = build_prefix(sc);
	if w.h0 != fin.h0 || w.net.nodes[0].best_block_hash() != fin.h0_hash || w.net.nodes[1].best_block_hash() != fin.h0_hash {
		std::mem::forget(w);
		return Err("prefix not reproducible".to_string());
	}
	set_style(&w.net, style);
	for n in 0..2 {
		if !live { break; }
		rec.directive(&format!("{} reset {}", n, fin.h0));
		for (id, evs) in fin.cat[n].iter() {
			let e: Vec<String> = evs.iter().map(|(k, c)| format!("{}:{}", k, c.map(|x| x.to_string()).unwrap_or("-".to_string()))).collect();
			rec.directive(&format!("{} tx {} {}", n, id, e.join(" ")));
		}
		// transactions that make this monitor queue nothing still need no entry (empty catalog = no events)
	}
	let tag = match fork { None => String::new(), Some(f) => format!("fork{}v{}/", f.depth, f.variant) };
	let mut r = Replay { w, fin, style, tag, live, events: [vec![], vec![]], first_seen: [BTreeMap::new(), BTreeMap::new()] };
	let mut obs = vec![];
	let mut cur = fin.h0;
	let res = guarded(AssertUnwindSafe(|| -> Result<(), String> {
		let mut forked = fork.is_none();
		for &cp in fin.checkpoints.iter() {
			if let Some(f) = fork { if !forked && f.at < cp {
				if f.at > cur { r.deliver_to(rec, cur, f.at)?; cur = f.at; }
				r.fork(rec, f);
				forked = true;
			} }
			r.deliver_to(rec, cur, cp)?;
			cur = cp;
			let o = r.checkpoint(cp);
			obs.push((cp, o));
		}
		Ok(())
	}));
	let mut lost: [Vec<u32>; 2] = [vec![], vec![]];
	if let Ok(Ok(())) = res {
		for n in 0..2 {
			let mon = r.w.net.nodes[n].chain_monitor.chain_monitor.get_monitor(r.w.chan).unwrap();
			let (_, awaiting, _, _, htlcs) = vh::monitor_onchain_view(&mon);
			let mut have: HashSet<u32> = awaiting.iter().filter_map(|e| fin.ids.get(&e.0).cloned()).collect();
			for t in htlcs.iter().flatten() { if let Some(i) = fin.ids.get(t) { have.insert(*i); } }
			for (id, evs) in fin.cat[n].iter() { if evs.iter().any(|e| e.0 == 3) && !have.contains(id) { lost[n].push(*id); } }
		}
	}
	let out = match res {
		Ok(Ok(())) => Ok(RunOut { lost, end: obs.last().map(|x| x.1.clone()).unwrap_or_default(), obs }),
		Ok(Err(e)) => Err(e),
		Err(p) => Err(format!("panic {}", p.chars().take(300).collect::<String>())),
	};
	std::mem::forget(r);
	out
}


// =====================================================================================================
// Late-preimage / claim-bookkeeping scenarios ("lp"): a preimage (ChannelMonitorUpdateStep::PaymentPreimage)
// reaches the monitor at ANY point relative to the confirmation of the commitment transaction — before
// the close, in the same block, k blocks later for k in 0..=ANTI_REORG_DELAY+1, after the disconnection,
// after the re-connection — and a reorg with ANY fork point (below the commitment, exactly at it, between
// commitment and tip) follows, delivered under every ConnectStyle; then different blocks are connected,
// rebroadcast_pending_claims is called, and the chain is mined until drained.
//
// Tracked outputs: the HTLC outputs of the confirmed commitment transaction that the *recipient* node
// claims with the preimage (CounterpartyOfferedHTLCOutput when the counterparty's commitment confirmed,
// HolderHTLCOutput when its own did).  After every delivery call and every claim_funds the real
// OnchainTxHandler bookkeeping for them (claimable_outpoints WITH creation heights, the handler's own
// awaiting entries, known preimages — hook monitor_claims_view) is compared with the Lean model
// (`<n> cv`), and these implementation-only oracles are evaluated:
//   O1  commitment confirmed, preimage known, HTLC output unspent, but no claim pending /
//       rebroadcast_pending_claims re-broadcasts nothing for it;
//   O2  after draining, the node did not get the HTLC (no own claim mined / no SpendableOutputs);
//   O3  a claimable_outpoints entry without pending_claim_requests entry;
//   O4  the styles disagree on pending claims / end observations for the same abstract history.
// =====================================================================================================

/// known-finding tag of this class (known_findings.txt).  KF-C11-3 (late preimage claim on the HOLDER commitment dated at the
/// tip) was repaired in /repo (0461f57): its symptom before the commitment is final is now a hard, untagged failure.  KF-C11-4
/// covers BOTH commitment kinds once funding_spend_confirmed is set (confirmed_spend_height = None => the tip).
const KF4: &str = "KF-C11-4 preimage claim registered after the counterparty commitment reached ANTI_REORG_DELAY (funding_spend_confirmed => confirmation height None) is dated at the tip: a one-block reorg drops the claim although the commitment is irrevocably confirmed";

#[derive(Clone, Copy, Debug, PartialEq)]
enum When { Before, At(u32), AfterDisc, AfterReorg, Never }

#[derive(Clone, Debug)]
struct Lp {
	seed: u64,
	/// HTLCs 0->1 / 1->0: (amount msat, when the recipient provides the preimage)
	ab: Vec<(u64, When)>,
	ba: Vec<(u64, When)>,
	closer: usize,
	/// empty blocks between the close and the commitment's block (height H = h0 + 1 + gap)
	gap: u32,
	/// blocks connected on top of H before the reorg (old tip = H + m, m >= 1)
	m: u32,
	/// fork point = H + df, -2 <= df <= m - 1 (df >= 0: the commitment stays confirmed); depth m - df <= ANTI_REORG_DELAY
	df: i32,
	/// if the commitment is removed it is re-mined at fork point + 1 + recommit
	recommit: u32,
	/// the new chain is connected up to old tip + 1 + extra before rebroadcast_pending_claims
	extra: u32,
	/// the recipient's preimage-claim transactions are mined right away in the pre-fork chain
	mine_early: bool,
	/// blocks mined after the rebroadcast
	drain: u32,
	/// unconfirm-order family: the two *ReorgsOnlyTip styles are replaced by a Confirm client that (like
	/// lightning-transaction-sync) reports the reorg with `transaction_unconfirmed` calls in a chosen ORDER and then
	/// announces only the NEW TIP (not below any removed transaction's old height) before / after re-confirming
	uo_family: bool,
}

#[derive(Clone, Debug)]
enum Step { Blk(Block), Disc(u32), Claim(usize), Rebroadcast, End }

#[derive(Clone, Debug)]
struct Tracked { oid: u32, op: OutPoint, pay: usize, node: usize, holder: bool, /// the PAYER's view: its claim is the time-locked timeout
	locked: bool }

struct LpFinal {
	h0: u32,
	h0_hash: bitcoin::BlockHash,
	steps: Vec<Step>,
	ids: HashMap<Txid, u32>,
	cat: [BTreeMap<u32, Vec<(u8, Option<u32>)>>; 2],
	tracked: Vec<Tracked>,
	commitment: Txid,
	/// claims on tracked outputs already registered when the prefix ends (holder HTLC claims made at broadcast time)
	init_claims: [Vec<(u32, u32)>; 2],
	init_locked: [Vec<u32>; 2],
	/// which node broadcast each transaction of the reference run (the blocks of a replay are the reference's)
	by_node: HashMap<Txid, usize>,
	n_blocks: usize,
}

#[derive(Default, Clone)]
struct LpOut {
	/// per node: tracked outputs pending at the rebroadcast checkpoint ("oid" list) — compared across styles
	pending: [String; 2],
	end: [String; 2],
	/// oracle texts (O1..O3), already tagged
	fails: Vec<String>,
}

/// the known deviation of this class: which (commitment side, moment) combinations it covers
fn kf_tag(_holder: bool, at: When) -> Option<&'static str> {
	match at {
		// k blocks after the confirmation the commitment has k+1 confirmations: irrevocable from k = ANTI_REORG_DELAY - 1 on
		When::At(k) if k >= ANTI_REORG_DELAY - 1 => Some(KF4),
		_ => None,
	}
}

fn whens(lp: &Lp) -> Vec<When> { lp.ab.iter().chain(lp.ba.iter()).map(|x| x.1).collect() }

struct LpExec<'a> {
	w: World,
	pays: Vec<PayInfo>,
	lp: &'a Lp,
	style: ConnectStyle,
	/// emit model ops / correspondence cases
	live: bool,
	reference: bool,
	ids: HashMap<Txid, u32>,
	cat: [BTreeMap<u32, Vec<(u8, Option<u32>)>>; 2],
	tracked: Vec<Tracked>,
	commitment: Txid,
	mempool: Vec<Transaction>,
	seen: HashSet<Txid>,
	by_node: HashMap<Txid, usize>,
	events: [Vec<String>; 2],
	first_seen: [BTreeMap<String, u32>; 2],
	provided: Vec<bool>,
	/// (node, output id) whose spend once had ANTI_REORG_DELAY confirmations; oid 0 = the commitment itself: conclusions about
	/// them are irrevocable by design, a later (deep) reorg need not retract them
	buried: HashSet<(usize, u32)>,
	/// label of the cv queries (scenario.style.step): the query is a distinct case at every point of every history
	label: String,
	step: u32,
	out: LpOut,
	/// order of the `transaction_unconfirmed` calls of an unconfirm-only disconnection: 0 = the library helper (block by
	/// block from the tip, then the harness' best_block_updated(fork point) for the transactions-first style);
	/// 1 = lowest height first, 2 = highest height first, 3 = the order of get_relevant_txids (sorted by txid)
	uo: u8,
	/// the next run of blocks is delivered by announcing only its last block as the new tip
	skip_to_tip: bool,
	/// `buried` as it was when the reorg started (unconfirm-order family: only what was buried BEFORE the reorg is
	/// irrevocable by design; the tip-only re-sync buries the re-confirmed commitment in one step)
	buried_at_disc: Option<HashSet<(usize, u32)>>,
}

impl<'a> LpExec<'a> {
	fn new(lp: &'a Lp, style: ConnectStyle, uo: u8, live: bool, fin: Option<&LpFinal>) -> Result<LpExec<'a>, String> {
		let ab: Vec<(u64, bool)> = lp.ab.iter().map(|x| (x.0, x.1 == When::Before)).collect();
		let ba: Vec<(u64, bool)> = lp.ba.iter().map(|x| (x.0, x.1 == When::Before)).collect();
		let (w, pays) = build_prefix_pays(&ab, &ba, lp.closer);
		let mut e = LpExec { w, pays, lp, style, live, reference: fin.is_none(), ids: HashMap::new(), cat: [BTreeMap::new(), BTreeMap::new()], tracked: vec![], commitment: Txid::from_raw_hash(bitcoin::hashes::Hash::all_zeros()),
			mempool: vec![], seen: HashSet::new(), by_node: HashMap::new(), events: [vec![], vec![]], first_seen: [BTreeMap::new(), BTreeMap::new()], provided: vec![], buried: HashSet::new(), label: format!("{}.{}{}", lp.seed % 100_000, STYLES.iter().position(|x| *x == style).unwrap_or(99), if uo == 0 { String::new() } else { format!("u{}", uo) }), step: 0, out: LpOut::default(), uo, skip_to_tip: false, buried_at_disc: None };
		e.provided = whens(lp).iter().map(|w| *w == When::Before).collect();
		e.take();
		// the closer's commitment transaction and the tracked outputs on it
		let c = e.mempool.iter().find(|t| t.input.len() == 1 && t.input[0].previous_output.txid == e.w.funding).cloned().ok_or("no commitment broadcast".to_string())?;
		e.commitment = c.compute_txid();
		for (i, p) in e.pays.iter().enumerate() {
			let v: Vec<usize> = c.output.iter().enumerate().filter(|(_, o)| o.value.to_sat() == p.amt / 1000).map(|x| x.0).collect();
			if v.len() != 1 { return Err(format!("HTLC output of pay {} not identified ({} candidates)", i, v.len())); }
			e.tracked.push(Tracked { oid: i as u32 + 1, op: OutPoint { txid: e.commitment, vout: v[0] as u32 }, pay: i, node: p.to, holder: p.to == lp.closer, locked: false });
			e.tracked.push(Tracked { oid: i as u32 + 51, op: OutPoint { txid: e.commitment, vout: v[0] as u32 }, pay: usize::MAX, node: p.from, holder: p.from == lp.closer, locked: true });
		}
		// the funding outpoint itself is a registered claim of the closer (HolderFundingOutput, made at broadcast
		// time): the commitment transaction is *its* claim and gets a handler-side awaiting entry
		e.tracked.push(Tracked { oid: 100, op: c.input[0].previous_output, pay: usize::MAX, node: lp.closer, holder: false, locked: false });
		if let Some(f) = fin {
			if e.w.h0 != f.h0 || e.w.net.nodes[0].best_block_hash() != f.h0_hash || e.commitment != f.commitment { return Err("prefix not reproducible".to_string()); }
			e.ids = f.ids.clone();
			e.cat = f.cat.clone();
			for (k, v) in f.by_node.iter() { e.by_node.entry(*k).or_insert(*v); }
		}
		set_style(&e.w.net, style);
		Ok(e)
	}

	fn take(&mut self) {
		for n in 0..2 {
			let txs: Vec<Transaction> = self.w.net.nodes[n].tx_broadcaster.txn_broadcasted.lock().unwrap().drain(..).collect();
			for tx in txs { let id = tx.compute_txid(); self.by_node.entry(id).or_insert(n); if self.seen.insert(id) { self.mempool.push(tx); } }
		}
	}

	fn height(&self, n: usize) -> u32 { self.w.net.nodes[n].blocks.lock().unwrap().last().unwrap().1 }

	/// (height, block) of the node's current chain containing `txid`
	fn conf_height(&self, n: usize, txid: &Txid) -> Option<u32> {
		self.w.net.nodes[n].blocks.lock().unwrap().iter().find(|(b, _)| b.txdata.iter().any(|t| t.compute_txid() == *txid)).map(|x| x.1)
	}
	/// the transaction of the node's current chain that spends `op`
	fn spender(&self, n: usize, op: &OutPoint) -> Option<(Txid, u32)> {
		for (b, h) in self.w.net.nodes[n].blocks.lock().unwrap().iter() { for t in b.txdata.iter() { if t.input.iter().any(|i| i.previous_output == *op) { return Some((t.compute_txid(), *h)); } } }
		None
	}

	fn poll(&mut self, n: usize) {
		let h = self.height(n);
		let before = self.events[n].len();
		drain(&self.w.net, n, &mut self.events[n]);
		for e in self.events[n][before..].to_vec() { self.first_seen[n].entry(e).or_insert(h); }
	}

	/// the real claim bookkeeping for node n's tracked outputs in the model's text
	fn cv_line(&mut self, n: usize) -> String {
		let mon = self.w.net.nodes[n].chain_monitor.chain_monitor.get_monitor(self.w.chan).unwrap();
		let (claimable, locktimed, awaiting, hashes) = vh::monitor_claims_view(&mon);
		let mut lk: Vec<Vec<u64>> = vec![];
		for (op, _) in locktimed.iter() { if let Some(t) = self.tracked.iter().find(|t| t.node == n && t.op == *op) { lk.push(vec![t.oid as u64]); } }
		let mut cl: Vec<Vec<u64>> = vec![];
		for (op, creation, pending) in claimable.iter() {
			if let Some(t) = self.tracked.iter().find(|t| t.node == n && t.op == *op) {
				cl.push(vec![t.oid as u64, *creation as u64]);
				if !*pending { self.out.fails.push(format!("O3 node {} output {} is in claimable_outpoints (creation height {}) but its claim id has no pending_claim_requests entry", n, t.oid, creation)); }
			}
		}
		let mut haw: Vec<Vec<u64>> = vec![];
		for (txid, h, _is_claim) in awaiting.iter() {
			let spends_tracked = self.seen_tx(txid).map(|tx| tx.input.iter().any(|i| self.tracked.iter().any(|t| t.node == n && t.op == i.previous_output))).unwrap_or(false);
			if spends_tracked { let k = vec![*self.ids.get(txid).unwrap_or(&999_999) as u64, *h as u64]; if !haw.contains(&k) { haw.push(k); } }
		}
		let mut pre: Vec<Vec<u64>> = vec![];
		for (i, p) in self.pays.iter().enumerate() { if p.to == n && hashes.contains(&p.hash) { pre.push(vec![i as u64 + 1]); } }
		format!("claims={} haw={} pre={} lk={}", show_keys(cl), show_keys(haw), show_keys(pre), show_keys(lk))
	}

	fn seen_tx(&self, txid: &Txid) -> Option<Transaction> {
		if let Some(t) = self.mempool.iter().find(|t| t.compute_txid() == *txid) { return Some(t.clone()); }
		for n in 0..2 { for (b, _) in self.w.net.nodes[n].blocks.lock().unwrap().iter() { for t in b.txdata.iter() { if t.compute_txid() == *txid { return Some(t.clone()); } } } }
		None
	}

	fn emit(&mut self, rec: &mut Rec, n: usize, ops: Vec<String>, kind: &str) {
		if ops.is_empty() || !self.live { return; }
		let last = ops.len() - 1;
		let class = format!("lp/{:?}/{}", self.style, kind);
		for (i, op) in ops.iter().enumerate() {
			let line = format!("{} {}", n, op);
			if i < last { rec.directive(&line); } else {
				let ans = view_line(&self.w.net, n, &self.w.chan, &self.ids);
				rec.case(&line, &ans, &class, true);
			}
		}
		let cv = self.cv_line(n);
		self.step += 1;
		rec.case(&format!("{} cv {}.{}", n, self.label, self.step), &cv, &format!("{}/cv", class), true);
	}

	/// model directives describing the scenario to the driver (replays only)
	fn preamble(&mut self, rec: &mut Rec, fin: &LpFinal) {
		if !self.live { return; }
		for n in 0..2 {
			rec.directive(&format!("{} reset {}", n, fin.h0));
			for (id, evs) in fin.cat[n].iter() {
				let e: Vec<String> = evs.iter().map(|(k, c)| format!("{}:{}", k, c.map(|x| x.to_string()).unwrap_or("-".to_string()))).collect();
				rec.directive(&format!("{} tx {} {}", n, id, e.join(" ")));
			}
			let cid = fin.ids[&fin.commitment];
			for t in fin.tracked.iter().filter(|t| t.node == n && t.pay != usize::MAX) {
				rec.directive(&format!("{} out {} {} {} {}", n, t.oid, cid, t.pay + 1, if t.holder { 1 } else { 0 }));
			}
			for t in fin.tracked.iter().filter(|t| t.node == n && t.locked && !t.holder) { rec.directive(&format!("{} lout {} {}", n, t.oid, cid)); }
			for o in fin.init_locked[n].iter() { rec.directive(&format!("{} initlocked {}", n, o)); }
			// which transactions spend which tracked outputs
			let mut sp: BTreeMap<u32, Vec<u32>> = BTreeMap::new();
			for st in fin.steps.iter() { if let Step::Blk(b) = st { for tx in b.txdata.iter() {
				let outs: Vec<u32> = fin.tracked.iter().filter(|t| t.node == n && tx.input.iter().any(|i| i.previous_output == t.op)).map(|t| t.oid).collect();
				if !outs.is_empty() { sp.insert(fin.ids[&tx.compute_txid()], outs); }
			} } }
			for (t, outs) in sp.iter() { rec.directive(&format!("{} spend {} {}", n, t, outs.iter().map(|x| x.to_string()).collect::<Vec<_>>().join(" "))); }
			for (i, w) in whens(self.lp).iter().enumerate() { if *w == When::Before && self.pays[i].to == n { rec.directive(&format!("{} pre {}", n, i + 1)); } }
			for (o, c) in fin.init_claims[n].iter() { rec.directive(&format!("{} initclaim {} {}", n, o, c)); }
			let cv = self.cv_line(n);
			rec.case(&format!("{} cv {}.0", n, self.label), &cv, &format!("lp/{:?}/init/cv", self.style), true);
		}
	}

	/// learn the monitor-event catalog (reference run): entries queued at the current height
	fn learn(&mut self, height: u32) -> Result<(), String> {
		for n in 0..2 {
			let mon = self.w.net.nodes[n].chain_monitor.chain_monitor.get_monitor(self.w.chan).unwrap();
			let (_, awaiting, _, _, _) = vh::monitor_onchain_view(&mon);
			let mut now: BTreeMap<u32, Vec<(u8, Option<u32>)>> = BTreeMap::new();
			for (t, h, k, thr) in awaiting.iter() {
				if *h != height { continue; }
				let id = match self.ids.get(t) { Some(i) => *i, None => return Err(format!("awaiting entry for unmined tx {} at {}", t, height)) };
				let csv = if *thr == *h + ANTI_REORG_DELAY - 1 { None } else { Some(*thr + 1 - *h) };
				now.entry(id).or_default().push((kind_code(k), csv));
			}
			for (id, evs) in now { match self.cat[n].get(&id) {
				None => { self.cat[n].insert(id, evs); },
				Some(old) => if *old != evs { return Err(format!("transaction {} queues different events on re-confirmation: {:?} vs {:?}", id, old, evs)); },
			} }
		}
		Ok(())
	}

	/// connect a run of consecutive blocks (starting at height `h`) in the node's style
	fn connect_run(&mut self, rec: &mut Rec, blocks: &[Block]) -> Result<(), String> {
		if self.skip_to_tip && !blocks.is_empty() { self.skip_to_tip = false; return self.connect_run_tip_only(rec, blocks); }
		let mut i = 0;
		while i < blocks.len() {
			let mut k = 1;
			if blocks[i].txdata.is_empty() && self.style.skips_blocks() { while i + k < blocks.len() && blocks[i + k].txdata.is_empty() { k += 1; } }
			for n in 0..2 {
				let h = self.height(n) + 1;
				// intermediate empty blocks are not announced by a skipping client
				for j in 0..k - 1 { self.w.net.nodes[n].blocks.lock().unwrap().push((blocks[i + j].clone(), h + j as u32)); }
				let b = &blocks[i + k - 1];
				let hb = h + k as u32 - 1;
				connect_block(&self.w.net.nodes[n], b);
				let ids = relevant_ids(b, &self.ids);
				let mut prior = tx_blocks(&self.w.net, n, &self.ids);
				if b.txdata.is_empty() { prior.retain(|(hh, _)| *hh != hb); }
				let ops = block_ops(self.style, hb, &ids, &prior);
				self.emit(rec, n, ops, if ids.is_empty() { if k > 1 { "connect-empties" } else { "connect-empty" } } else { "connect-tx" });
				self.poll(n);
				let tip = self.height(n);
				if let Some(hc) = self.conf_height(n, &self.commitment) { if tip + 1 - hc >= ANTI_REORG_DELAY { self.buried.insert((n, 0)); } }
				for t in self.tracked.clone().iter().filter(|t| t.node == n) { if let Some((_, hs)) = self.spender(n, &t.op) { if tip + 1 - hs >= ANTI_REORG_DELAY { self.buried.insert((n, t.oid)); } } }
			}
			self.take();
			if self.reference { for j in 0..k { let h = self.height(0) + 1 - k as u32 + j as u32; if j + 1 == k { self.learn(h)?; } } }
			i += k;
		}
		Ok(())
	}

	/// The Confirm client that syncs against an index (lightning-transaction-sync): the whole run is taken in at once —
	/// only its LAST block is announced as the new tip (`best_block_updated` "may be skipped for intermediary blocks"),
	/// the transactions of the run are confirmed with their own headers / heights; best-block-first or transactions-first
	/// according to the style.  No best_block_updated below the old tip is ever made.
	fn connect_run_tip_only(&mut self, rec: &mut Rec, blocks: &[Block]) -> Result<(), String> {
		use lightning::chain::Confirm;
		let best_first = self.style == ConnectStyle::BestBlockFirstReorgsOnlyTip;
		for n in 0..2 {
			let h1 = self.height(n) + 1;
			for (j, b) in blocks.iter().enumerate() { self.w.net.nodes[n].blocks.lock().unwrap().push((b.clone(), h1 + j as u32)); }
			let (last, hl) = (blocks.last().unwrap().clone(), h1 + blocks.len() as u32 - 1);
			let mut calls: Vec<(String, Option<(Block, u32)>)> = vec![];
			for (j, b) in blocks.iter().enumerate() { if !b.txdata.is_empty() {
				let ids = relevant_ids(b, &self.ids);
				calls.push((format!("conf {}{}", h1 + j as u32, ids.iter().map(|x| format!(" {}", x)).collect::<String>()), Some((b.clone(), h1 + j as u32))));
			} }
			if best_first { calls.insert(0, (format!("best {}", hl), None)); } else { calls.push((format!("best {}", hl), None)); }
			for (op, what) in calls {
				match what {
					None => { let node = &self.w.net.nodes[n]; node.chain_monitor.chain_monitor.best_block_updated(&last.header, hl); node.node.best_block_updated(&last.header, hl); },
					Some((b, hb)) => {
						let node = &self.w.net.nodes[n];
						let txdata: Vec<_> = b.txdata.iter().enumerate().collect();
						node.chain_monitor.chain_monitor.transactions_confirmed(&b.header, &txdata, hb);
						node.node.transactions_confirmed(&b.header, &txdata, hb);
					},
				}
				let kind = if op.starts_with("best") { "tip-only-best" } else { "tip-only-conf" };
				self.emit(rec, n, vec![op], kind);
				self.poll(n);
			}
			let tip = self.height(n);
			if let Some(hc) = self.conf_height(n, &self.commitment) { if tip + 1 - hc >= ANTI_REORG_DELAY { self.buried.insert((n, 0)); } }
			for t in self.tracked.clone().iter().filter(|t| t.node == n) { if let Some((_, hs)) = self.spender(n, &t.op) { if tip + 1 - hs >= ANTI_REORG_DELAY { self.buried.insert((n, t.oid)); } } }
		}
		self.take();
		Ok(())
	}

	/// unconfirm-only disconnection with a chosen ORDER of the `transaction_unconfirmed` calls (a Confirm client may
	/// report the removed transactions in any order; one that iterates get_relevant_txids does so sorted by txid).
	/// Implementation-side oracle O5 (Confirm docs): a transaction reported unconfirmed is no longer listed by
	/// get_relevant_txids.
	fn unconfirm_in_order(&mut self, rec: &mut Rec, n: usize, depth: u32) {
		use lightning::chain::Confirm;
		let popped: Vec<(Block, u32)> = { let bl = self.w.net.nodes[n].blocks.lock().unwrap(); bl[bl.len() - depth as usize..].to_vec() };
		// (height, position, txid) of every removed transaction
		let mut txs: Vec<(u32, usize, Txid)> = vec![];
		for (b, h) in popped.iter() { for (i, t) in b.txdata.iter().enumerate() { txs.push((*h, i, t.compute_txid())); } }
		match self.uo {
			1 => txs.sort(),
			2 => { txs.sort(); txs.reverse(); },
			_ => {
				let mon = self.w.net.nodes[n].chain_monitor.chain_monitor.get_monitor(self.w.chan).unwrap();
				let rel: Vec<Txid> = mon.get_relevant_txids().iter().map(|x| x.0).collect();
				let mut v: Vec<(u32, usize, Txid)> = rel.iter().filter_map(|r| txs.iter().find(|t| t.2 == *r).cloned()).collect();
				// (transactions the monitor no longer lists need no call; a careful client reports them all the same, last)
				for t in txs.iter() { if !v.contains(t) { v.push(*t); } }
				txs = v;
			},
		}
		if self.live { rec.directive(&format!("{} usnap", n)); }
		for (_, _, txid) in txs.iter() {
			self.w.net.nodes[n].chain_monitor.chain_monitor.transaction_unconfirmed(txid);
			self.w.net.nodes[n].node.transaction_unconfirmed(txid);
			if let Some(id) = self.ids.get(txid).cloned() { let kind = format!("unconfirm-order{}", self.uo); self.emit(rec, n, vec![format!("unconf {}", id)], &kind); }
			let mon = self.w.net.nodes[n].chain_monitor.chain_monitor.get_monitor(self.w.chan).unwrap();
			if mon.get_relevant_txids().iter().any(|x| x.0 == *txid) {
				self.out.fails.push(format!("O5 node {} still lists transaction {} (id {}) in get_relevant_txids right after transaction_unconfirmed({}) [order {}: {:?}]", n, &txid.to_string()[..8], self.ids.get(txid).cloned().unwrap_or(0), &txid.to_string()[..8], self.uo, txs.iter().map(|t| (t.0, self.ids.get(&t.2).cloned().unwrap_or(0))).collect::<Vec<_>>()));
			}
		}
		if self.live {
			// the closed form of the theorems (unconfirm_only_vs_listen / unconfirm_order_independent) against the real state
			let fork_h = popped[0].1 - 1;
			let idl: String = txs.iter().filter_map(|t| self.ids.get(&t.2)).map(|i| format!(" {}", i)).collect();
			let ans = format!("{} {} closed=true", view_line(&self.w.net, n, &self.w.chan, &self.ids), self.cv_line(n));
			rec.case(&format!("{} upred {}{}", n, fork_h, idl), &ans, &format!("lp/{:?}/unconfirm-order{}/closed-form", self.style, self.uo), true);
		}
		{ let mut bl = self.w.net.nodes[n].blocks.lock().unwrap(); let l = bl.len(); bl.truncate(l - depth as usize); }
	}

	fn is_exempt(&self, n: usize, oid: u32) -> bool {
		let bur = match (&self.buried_at_disc, self.lp.uo_family) { (Some(b), true) => b, _ => &self.buried };
		bur.contains(&(n, oid)) || (bur.contains(&(n, 0)) && self.lp.df < 0)
	}

	fn disconnect(&mut self, rec: &mut Rec, depth: u32) {
		self.buried_at_disc = Some(self.buried.clone());
		let ordered = self.uo != 0 && matches!(self.style, ConnectStyle::BestBlockFirstReorgsOnlyTip | ConnectStyle::TransactionsFirstReorgsOnlyTip);
		for n in 0..2 {
			if ordered {
				self.unconfirm_in_order(rec, n, depth);
				self.skip_to_tip = true;
				self.poll(n);
				continue;
			}
			let mut ops = disconnect_with_ops(&self.w.net, n, self.style, depth, &self.ids);
			if self.style == ConnectStyle::BestBlockFirstReorgsOnlyTip && whens(self.lp).contains(&When::AfterDisc) {
				// a monitor update is about to be applied between the disconnection and the next block: the client
				// announces the tip it is now on first (the helper's unconfirm-only disconnection leaves the monitor's
				// best block at the OLD tip, and a claim built now would carry that height as nLockTime, which the
				// test broadcaster refuses)
				use lightning::chain::Confirm;
				let (hdr, hh) = { let bl = self.w.net.nodes[n].blocks.lock().unwrap(); let l = bl.last().unwrap(); (l.0.header, l.1) };
				self.w.net.nodes[n].chain_monitor.chain_monitor.best_block_updated(&hdr, hh);
				self.w.net.nodes[n].node.best_block_updated(&hdr, hh);
				ops.push(format!("best {}", hh));
			}
			self.emit(rec, n, ops, "disconnect");
			self.poll(n);
		}
		self.take();
		// the re-org evicts the mempool: apart from the commitment only what the nodes (re-)broadcast from now on
		// can be mined — a claim that is no longer tracked is not re-broadcast and the HTLC is not collected (O2)
		let c = self.commitment;
		self.mempool.retain(|t| t.compute_txid() == c);
		self.seen.retain(|id| *id == c);
	}

	fn claim(&mut self, rec: &mut Rec, i: usize) {
		let n = self.pays[i].to;
		self.w.net.nodes[n].node.claim_funds(self.pays[i].pre);
		self.provided[i] = true;
		self.emit(rec, n, vec![format!("pre {}", i + 1)], "preimage");
		self.poll(n);
		self.take();
	}

	fn tag(&self, t: &Tracked, at: When) -> String { kf_tag(t.holder, at).map(|k| format!("{} — ", k)).unwrap_or_default() }

	/// O1: claims that must be pending now
	fn rebroadcast(&mut self) {
		self.take();
		for n in 0..2 {
			self.w.net.nodes[n].chain_monitor.chain_monitor.rebroadcast_pending_claims();
			let txs: Vec<Transaction> = self.w.net.nodes[n].tx_broadcaster.txn_broadcasted.lock().unwrap().clone();
			let mon = self.w.net.nodes[n].chain_monitor.chain_monitor.get_monitor(self.w.chan).unwrap();
			let (claimable, _, _, _) = vh::monitor_claims_view(&mon);
			let mut pend: Vec<String> = vec![];
			for t in self.tracked.clone().iter().filter(|t| t.node == n && t.pay != usize::MAX) {
				let rebroadcast = txs.iter().any(|tx| tx.input.iter().any(|i| i.previous_output == t.op));
				let registered = claimable.iter().any(|(op, _, p)| *op == t.op && *p);
				let commit_h = self.conf_height(n, &self.commitment);
				let spent = self.spender(n, &t.op);
				let at = whens(self.lp)[t.pay];
				// irrevocable by design: the spend / the commitment had ANTI_REORG_DELAY confirmations before a reorg of that depth
				let exempt = self.is_exempt(n, t.oid);
				if rebroadcast && !exempt { pend.push(format!("{}", t.oid)); }
				if self.provided[t.pay] && commit_h.is_some() && spent.is_none() && !exempt && (!rebroadcast || !registered) {
					self.out.fails.push(format!("{}O1 claim lost: node {} holds the preimage of HTLC {} (provided {:?}), the commitment is confirmed at height {} of its best chain (tip {}), the HTLC output {}:{} is unspent, but {} [{}]",
						self.tag(t, at), n, t.pay + 1, at, commit_h.unwrap(), self.height(n), &t.op.txid.to_string()[..8], t.op.vout,
						if !registered { "no claim is pending for it (claimable_outpoints / pending_claim_requests) and rebroadcast_pending_claims re-broadcasts nothing" } else { "rebroadcast_pending_claims re-broadcasts nothing for it" },
						if t.holder { "holder commitment" } else { "counterparty commitment" }));
				}
			}
			self.out.pending[n] = pend.join(",");
		}
		self.take();
	}

	/// O2 + end observation
	fn end(&mut self) {
		for n in 0..2 {
			self.poll(n);
			for t in self.tracked.clone().iter().filter(|t| t.node == n && t.pay != usize::MAX) {
				if !self.provided[t.pay] || self.conf_height(n, &self.commitment).is_none() { continue; }
				if self.spender(n, &t.op).is_none() && self.is_exempt(n, t.oid) { continue; }
				let at = whens(self.lp)[t.pay];
				match self.spender(n, &t.op) {
					// (a replay follows the reference run's blocks: if this node did re-broadcast its claim but the fixed chain does not contain it, nothing can be concluded)
					None => if !self.out.pending[n].split(',').any(|x| x == t.oid.to_string()) { self.out.fails.push(format!("{}O2 after draining ({} blocks past the rebroadcast) node {} never claimed HTLC {} although it held the preimage (provided {:?}): output {}:{} still unspent [{}]", self.tag(t, at), self.lp.drain, n, t.pay + 1, at, &t.op.txid.to_string()[..8], t.op.vout, if t.holder { "holder commitment" } else { "counterparty commitment" })); },
					Some((s, h)) => {
						if self.by_node.get(&s) != Some(&n) { self.out.fails.push(format!("{}O2 HTLC {} was spent by the counterparty's transaction {} although node {} held the preimage (provided {:?})", self.tag(t, at), t.pay + 1, &s.to_string()[..8], n, at)); continue; }
						let confs = self.height(n) + 1 - h;
						let need = if t.holder { (BREAKDOWN_TIMEOUT as u32).max(ANTI_REORG_DELAY) } else { ANTI_REORG_DELAY };
						let got = self.events[n].iter().any(|e| e.starts_with("SpendableOutputs") && e.contains(&s.to_string()[..8]));
						if confs >= need && !got { self.out.fails.push(format!("{}O2 node {} did not receive SpendableOutputs for HTLC {} it had the preimage for: its claim {} has {} confirmations", self.tag(t, at), n, t.pay + 1, &s.to_string()[..8], confs)); }
					},
				}
			}
			self.out.end[n] = observe(&self.w.net, n, &self.w.chan, &self.ids, &self.events[n], &BTreeMap::new());
		}
	}

	/// eligible mempool transactions for a block at `height` on top of node 0's chain; `only_claims`: only the
	/// recipients' spends of tracked outputs
	fn pick(&mut self, height: u32, only_claims: bool, want_commitment: bool) -> Vec<Transaction> {
		let chain: Vec<Transaction> = self.w.net.nodes[0].blocks.lock().unwrap().iter().flat_map(|(b, _)| b.txdata.clone()).collect();
		let mut confirmed: HashSet<Txid> = chain.iter().map(|t| t.compute_txid()).collect();
		confirmed.insert(self.w.funding);
		let mut spent: HashSet<OutPoint> = chain.iter().flat_map(|t| t.input.iter().map(|i| i.previous_output)).collect();
		let mut txs = vec![];
		let mut progress = true;
		while progress {
			progress = false;
			for tx in self.mempool.clone().iter() {
				let id = tx.compute_txid();
				if confirmed.contains(&id) { continue; }
				let is_commit = id == self.commitment;
				if is_commit && !want_commitment { continue; }
				if !is_commit && only_claims && !tx.input.iter().any(|i| self.tracked.iter().any(|t| t.op == i.previous_output && self.by_node.get(&id) == Some(&t.node))) { continue; }
				let lock_ok = !tx.lock_time.is_block_height() || tx.lock_time.to_consensus_u32() < height;
				let inputs_ok = tx.input.iter().all(|i| !spent.contains(&i.previous_output) && confirmed.contains(&i.previous_output.txid));
				if lock_ok && inputs_ok {
					for i in tx.input.iter() { spent.insert(i.previous_output); }
					confirmed.insert(id);
					txs.push(tx.clone());
					progress = true;
				}
			}
		}
		txs
	}

	fn mk_block(&mut self, txs: Vec<Transaction>, time_offset: u32) -> Block {
		let h = self.height(0) + 1;
		for tx in txs.iter() { let n = self.ids.len() as u32 + 1; self.ids.entry(tx.compute_txid()).or_insert(n); }
		create_dummy_block(self.w.net.nodes[0].best_block_hash(), h + time_offset, txs)
	}
}

/// the reference run (whole blocks via Listen) decides the blocks; returns the step list
fn lp_reference(lp: &Lp, rec: &mut Rec) -> Result<LpFinal, String> {
	let mut e = LpExec::new(lp, ConnectStyle::FullBlockViaListen, 0, false, None)?;
	let ws = whens(lp);
	let mut steps: Vec<Step> = vec![];
	let h0 = e.w.h0;
	let h0_hash = e.w.net.nodes[0].best_block_hash();
	let mut init_claims: [Vec<(u32, u32)>; 2] = [vec![], vec![]];
	let mut init_locked: [Vec<u32>; 2] = [vec![], vec![]];
	for n in 0..2 {
		let mon = e.w.net.nodes[n].chain_monitor.chain_monitor.get_monitor(e.w.chan).unwrap();
		let (claimable, locktimed, _, _) = vh::monitor_claims_view(&mon);
		for (op, c, _) in claimable.iter() { if let Some(t) = e.tracked.iter().find(|t| t.node == n && t.op == *op) { init_claims[n].push((t.oid, *c)); } }
		for (op, _) in locktimed.iter() { if let Some(t) = e.tracked.iter().find(|t| t.node == n && t.op == *op) { init_locked[n].push(t.oid); } }
	}
	macro_rules! blk { ($txs: expr, $off: expr) => { { let b = e.mk_block($txs, $off); e.connect_run(rec, &[b.clone()])?; steps.push(Step::Blk(b)); } } }
	macro_rules! claims { ($w: expr) => { for (i, w) in ws.iter().enumerate() { if *w == $w { e.claim(rec, i); steps.push(Step::Claim(i)); } } } }
	for _ in 0..lp.gap { blk!(vec![], 0); }
	let c = e.mempool.iter().find(|t| t.compute_txid() == e.commitment).cloned().unwrap();
	blk!(vec![c], 0);
	let hc = e.height(0);
	claims!(When::At(0));
	for j in 1..=lp.m {
		let txs = if lp.mine_early { e.pick(hc + j, true, false) } else { vec![] };
		blk!(txs, 0);
		claims!(When::At(j));
	}
	let fork = (hc as i32 + lp.df) as u32;
	let depth = hc + lp.m - fork;
	e.disconnect(rec, depth);
	steps.push(Step::Disc(depth));
	claims!(When::AfterDisc);
	let target = hc + lp.m + 1 + lp.extra;
	while e.height(0) < target {
		let h = e.height(0) + 1;
		let want_commit = lp.df < 0 && h >= fork + 1 + lp.recommit;
		let txs = e.pick(h, true, want_commit).into_iter().filter(|t| t.compute_txid() == e.commitment).collect();
		blk!(txs, FORK_TIME_OFFSET);
	}
	if e.conf_height(0, &e.commitment).is_none() { return Err("commitment not re-mined before the checkpoint".to_string()); }
	claims!(When::AfterReorg);
	e.rebroadcast();
	steps.push(Step::Rebroadcast);
	for _ in 0..lp.drain {
		let h = e.height(0) + 1;
		let txs = e.pick(h, false, true);
		blk!(txs, FORK_TIME_OFFSET);
	}
	e.end();
	steps.push(Step::End);
	if std::env::var("VERIF_DEBUG").is_ok() {
		eprintln!("LPREF {:?} h0={} H={} fork={} tracked={:?}", lp, h0, hc, fork, e.tracked);
		for st in steps.iter() { match st { Step::Blk(b) => if !b.txdata.is_empty() { eprintln!("  blk txs={:?}", b.txdata.iter().map(|t| e.ids[&t.compute_txid()]).collect::<Vec<_>>()); }, o => eprintln!("  {:?}", o) } }
		eprintln!("  fails={:?}\n  pending={:?} cat={:?}", e.out.fails, e.out.pending, e.cat);
	}
	let n_blocks = steps.iter().filter(|s| matches!(s, Step::Blk(_))).count();
	let fin = LpFinal { h0, h0_hash, steps, ids: e.ids.clone(), cat: e.cat.clone(), tracked: e.tracked.clone(), commitment: e.commitment, init_claims, init_locked, by_node: e.by_node.clone(), n_blocks };
	std::mem::forget(e);
	Ok(fin)
}

fn lp_replay(lp: &Lp, fin: &LpFinal, style: ConnectStyle, uo: u8, rec: &mut Rec) -> Result<LpOut, String> {
	let mut e = LpExec::new(lp, style, uo, true, Some(fin))?;
	e.preamble(rec, fin);
	let res = guarded(AssertUnwindSafe(|| -> Result<(), String> {
		let mut i = 0;
		while i < fin.steps.len() {
			match &fin.steps[i] {
				Step::Blk(_) => {
					let mut run: Vec<Block> = vec![];
					while i < fin.steps.len() { if let Step::Blk(b) = &fin.steps[i] { run.push(b.clone()); i += 1; } else { break; } }
					e.connect_run(rec, &run)?;
					continue;
				},
				Step::Disc(d) => e.disconnect(rec, *d),
				Step::Claim(p) => e.claim(rec, *p),
				Step::Rebroadcast => e.rebroadcast(),
				Step::End => e.end(),
			}
			i += 1;
		}
		Ok(())
	}));
	let out = match res {
		Ok(Ok(())) => Ok(e.out.clone()),
		Ok(Err(x)) => Err(x),
		Err(p) => Err(format!("panic {}", p.chars().take(300).collect::<String>())),
	};
	std::mem::forget(e);
	out
}


/// every (k, fork point) combination: the counterparty-commitment HTLC's preimage arrives k blocks after the
/// commitment confirmed, k in 0..=ANTI_REORG_DELAY+1; fork point H+df for every df in -2..=m-1; the other
/// direction's HTLC (claimed on the HOLDER commitment) gets a random moment
fn gen_lps(seed: u64, thorough: bool, rng: &mut Rng) -> Vec<Lp> {
	let mut v = vec![];
	let rounds = if thorough { 3 } else { 1 };
	for round in 0..rounds {
		for k in 0..=ANTI_REORG_DELAY + 1 {
			let m = k.max(1) + rng.below(2) as u32;
			for df in (-2i32).max(m as i32 - ANTI_REORG_DELAY as i32)..=(m as i32 - 1) {
				let closer = rng.below(2) as usize;
				let primary = match (round, rng.below(8)) { (0, _) => When::At(k), (_, 0) => When::AfterDisc, (_, 1) => When::AfterReorg, (_, 2) => When::Before, _ => When::At(k) };
				let secondary = match rng.below(if thorough { 8 } else { 7 }) { 0 => When::Before, 1 => When::AfterDisc, 2 => When::AfterReorg, 7 => When::Never, _ => When::At(rng.below(m as u64 + 1) as u32) };
				let a1 = 3_000_000 + rng.below(9_000_000);
				let a2 = 13_000_000 + rng.below(9_000_000);
				let a3 = 23_000_000 + rng.below(9_000_000);
				// counterparty-type HTLCs flow from the closer to the other node
				let mut prim = vec![(a1, primary)];
				if rng.chance(1, 3) { prim.push((a3, match rng.below(3) { 0 => primary, 1 => When::At(rng.below(m as u64 + 1) as u32), _ => When::Before })); }
				let sec = if rng.chance(3, 4) { vec![(a2, secondary)] } else { vec![] };
				let (ab, ba) = if closer == 0 { (prim, sec) } else { (sec, prim) };
				v.push(Lp { seed: seed.wrapping_mul(100_000).wrapping_add(v.len() as u64), ab, ba, closer, gap: rng.below(3) as u32, m, df, recommit: rng.below(3) as u32, extra: rng.below(3) as u32,
					mine_early: rng.chance(1, 4), // (the drain stays below the HTLCs' cltv expiry: time-locked packages never reach their locktime)
					drain: if thorough && rng.chance(1, 4) { 20 + rng.below(20) as u32 } else { ANTI_REORG_DELAY + 3 }, uo_family: false });
			}
		}
	}
	// UNCONFIRM-ORDER family: the commitment (height H) AND the recipient's claim transaction (mined early, at H+1..)
	// are both removed by the reorg (fork point below H, depth <= ANTI_REORG_DELAY); the commitment re-confirms, the
	// claim transaction does not (the mempool is evicted); the new chain is taken in tip-only up to a height that is
	// at least ANTI_REORG_DELAY - 1 above the claim transaction's OLD height before the rebroadcast checkpoint, so a
	// stale handler entry of the removed claim transaction would have matured by then.
	let n_uo = if thorough { 18 } else { 5 };
	for i in 0..n_uo {
		let closer = rng.below(2) as usize;
		let df = -1 - (rng.below(2) as i32);
		let m = 2 + rng.below((ANTI_REORG_DELAY as i32 + df - 1) as u64) as u32; // 2 ..= ANTI_REORG_DELAY + df
		let primary = if i % 3 == 2 { When::At(0) } else { When::Before };
		let a1 = 3_000_000 + rng.below(9_000_000);
		let a2 = 13_000_000 + rng.below(9_000_000);
		let a3 = 23_000_000 + rng.below(9_000_000);
		let mut prim = vec![(a1, primary)];
		if rng.chance(1, 3) { prim.push((a3, When::Before)); }
		let sec = if rng.chance(1, 2) { vec![(a2, *rng.pick(&[When::Before, When::At(0), When::AfterReorg, When::Never]))] } else { vec![] };
		let (ab, ba) = if closer == 0 { (prim, sec) } else { (sec, prim) };
		v.push(Lp { seed: seed.wrapping_mul(100_000).wrapping_add(v.len() as u64), ab, ba, closer, gap: rng.below(3) as u32, m, df, recommit: rng.below(3) as u32,
			extra: ANTI_REORG_DELAY + rng.below(2) as u32, mine_early: true, drain: ANTI_REORG_DELAY + 3, uo_family: true });
	}
	v
}

struct LpStats { scenarios: u64, skipped: u64, runs: u64, blocks: u64, kf4: u64, late: u64, uo: u64 }

fn run_lps(args: &Args, rec: &mut Rec, rng: &mut Rng, diag: &mut dyn Write) -> LpStats {
	let mut st = LpStats { scenarios: 0, skipped: 0, runs: 0, blocks: 0, kf4: 0, late: 0, uo: 0 };
	let only_uo: Option<u8> = std::env::var("C11_UO").ok().and_then(|x| x.parse().ok());
	let only: Option<usize> = std::env::var("C11_LP_ONLY").ok().and_then(|x| x.parse().ok());
	let only_style: Option<usize> = std::env::var("C11_STYLE").ok().and_then(|x| x.parse().ok());
	let lps = gen_lps(args.seed, args.thorough, rng);
	let mut kf4_reported = false;
	let t0 = std::time::Instant::now();
	for (li, lp) in lps.iter().enumerate() {
		if only.map(|o| o != li).unwrap_or(false) { continue; }
		if std::env::var("C11_UO_ONLY").is_ok() && !lp.uo_family { continue; }
		st.scenarios += 1;
		let fin = match guarded(AssertUnwindSafe(|| lp_reference(lp, rec))) {
			Ok(Ok(f)) => f,
			Ok(Err(e)) => { let _ = writeln!(diag, "lp {} {:?}: reference failed: {}", li, lp, e); rec.discarded += 1; st.skipped += 1; continue; },
			Err(p) => { let _ = writeln!(diag, "lp {} {:?}: reference panicked: {}", li, lp, p); rec.discarded += 1; st.skipped += 1; continue; },
		};
		if whens(lp).iter().any(|w| matches!(w, When::At(k) if *k >= 1)) { st.late += 1; }
		let styles: Vec<ConnectStyle> = if args.thorough { STYLES.to_vec() } else {
			let mut v = vec![ConnectStyle::FullBlockViaListen, ConnectStyle::FullBlockDisconnectionsSkippingViaListen, ConnectStyle::BestBlockFirst, ConnectStyle::TransactionsFirst,
				ConnectStyle::TransactionsFirstSkippingBlocks, ConnectStyle::TransactionsFirstReorgsOnlyTip, ConnectStyle::BestBlockFirstReorgsOnlyTip];
			let s = *rng.pick(&STYLES); if !v.contains(&s) { v.push(s); }
			v
		};
		let mut base: Option<(ConnectStyle, LpOut)> = None;
		let mut reported: HashSet<String> = HashSet::new();
		let runs: Vec<(ConnectStyle, u8)> = if !lp.uo_family { styles.iter().map(|s| (*s, 0u8)).collect() } else {
			// the Listen client and a rewinding Confirm client as references, then the unconfirm-only client in every order
			let mut v = vec![(ConnectStyle::FullBlockViaListen, 0u8), (ConnectStyle::BestBlockFirst, 0)];
			for uo in 1..=3u8 { v.push((ConnectStyle::BestBlockFirstReorgsOnlyTip, uo)); v.push((ConnectStyle::TransactionsFirstReorgsOnlyTip, uo)); }
			if args.thorough { v.push((ConnectStyle::TransactionsFirstSkippingBlocks, 0)); v.push((ConnectStyle::BestBlockFirstReorgsOnlyTip, 0)); v.push((ConnectStyle::TransactionsFirstReorgsOnlyTip, 0)); }
			v
		};
		if lp.uo_family { st.uo += 1; }
		for &(sty, uo) in runs.iter() {
			if only_style.map(|o| STYLES[o] != sty).unwrap_or(false) { continue; }
			if only_uo.map(|o| o != uo).unwrap_or(false) { continue; }
			st.runs += 1; st.blocks += fin.n_blocks as u64;
			let out = match lp_replay(lp, &fin, sty, uo, rec) {
				Ok(o) => o,
				Err(e) => { rec.oracle_fail(format!("lp delivery failed: scenario {} {:?} style={:?} unconfirm-order={}: {}", li, lp, sty, uo, e)); continue; },
			};
			for f in out.fails.iter() {
				// one report per (scenario, oracle text modulo style); known findings once per run
				if f.starts_with("KF-C11-4") { st.kf4 += 1; if kf4_reported { continue; } kf4_reported = true; }
				else if !reported.insert(f.clone()) { continue; }
				rec.oracle_fail(format!("{} — lp scenario {} {:?} style={:?} unconfirm-order={}", f, li, lp, sty, uo));
			}
			match &base {
				None => base = Some((sty, out)),
				Some((bst, b)) => for n in 0..2 {
					// outputs in one of the two known-finding classes are reported (once) under their tag
					let kf: Vec<(String, &'static str)> = fin.tracked.iter().filter(|t| t.node == n && t.pay != usize::MAX).filter_map(|t| kf_tag(t.holder, whens(lp)[t.pay]).map(|k| (t.oid.to_string(), k))).collect();
					let strip = |p: &str| p.split(',').filter(|o| !o.is_empty() && !kf.iter().any(|(k, _)| k == o)).collect::<Vec<_>>().join(",");
					if strip(&out.pending[n]) != strip(&b.pending[n]) { rec.oracle_fail(format!("O4 styles disagree on the claims pending at the rebroadcast: lp scenario {} {:?} node={} {:?}: [{}] vs {:?} (unconfirm-order {}): [{}]", li, lp, n, bst, b.pending[n], sty, uo, out.pending[n])); }
					else if out.pending[n] != b.pending[n] { st.kf4 += 1; }
					if out.end[n] != b.end[n] {
						let tag = if out.pending[n] != b.pending[n] && !kf.is_empty() { format!("{} — ", kf[0].1) } else { String::new() };
						if !tag.is_empty() { st.kf4 += 1; if kf4_reported { continue; } kf4_reported = true; }
						rec.oracle_fail(format!("{}O4 styles disagree at the end: lp scenario {} {:?} node={} {:?}: [{}] vs {:?} (unconfirm-order {}): [{}]", tag, li, lp, n, bst, b.end[n], sty, uo, out.end[n]));
					}
				},
			}
		}
		if li % 10 == 9 { let _ = writeln!(diag, "c11: lp scenario {} done, {:.1}s", li, t0.elapsed().as_secs_f32()); }
	}
	st
}

fn gen_scn(seed: u64, rng: &mut Rng) -> Scn {
	let amt = |rng: &mut Rng| match rng.below(4) { 0 => 100_000 + rng.below(100_000), _ => 3_000_000 + rng.below(20_000_000) };
	let n_ab = rng.below(4) as usize;
	let n_ba = rng.below(3).min(3 - n_ab.min(3) as u64) as usize;
	let ab = (0..n_ab).map(|_| (amt(rng), rng.chance(1, 2))).collect();
	let ba = (0..n_ba).map(|_| (amt(rng), rng.chance(1, 2))).collect();
	Scn { seed, ab, ba, closer: rng.below(2) as usize, gap: rng.below(3) as u32, mine_num: 1 + rng.below(3) }
}

fn main() {
	let args = &parse_args("c11");
	let mut rec = Rec::new(&args.out, "c11");
	// the test utilities print every log line to stdout and a line per connected block to stderr
	if std::env::var("C11_LOG").is_err() { silence_stdout(); }
	let only: Option<u64> = std::env::var("C11_ONLY").ok().and_then(|x| x.parse().ok());
	let only_group: Option<usize> = std::env::var("C11_GROUP").ok().and_then(|x| x.parse().ok());
	let only_style: Option<usize> = std::env::var("C11_STYLE").ok().and_then(|x| x.parse().ok());
	let mut diag: Box<dyn Write> = unsafe {
		use std::os::unix::io::{AsRawFd, FromRawFd};
		let saved = libc::dup(2);
		if std::env::var("VERIF_DEBUG").is_err() {
			if let Ok(f) = std::fs::OpenOptions::new().write(true).open("/dev/null") { libc::dup2(f.as_raw_fd(), 2); }
		}
		Box::new(std::fs::File::from_raw_fd(saved))
	};
	let mut rng = Rng::new(args.seed);
	let n_scn = (if args.thorough { 40 } else { 5 }) * args.scale;
	let forks_per = if args.thorough { 12 } else { 5 };
	let mut n_runs = 0u64; let mut n_groups = 0u64; let mut n_txs = 0usize; let mut n_blocks = 0usize;
	let mut skipped = 0u64; let mut n_kf1 = 0u64; let mut n_kf2 = 0u64;
	let lpst = if std::env::var("C11_NO_LP").is_ok() { LpStats { scenarios: 0, skipped: 0, runs: 0, blocks: 0, kf4: 0, late: 0, uo: 0 } } else { run_lps(args, &mut rec, &mut Rng::new(args.seed.wrapping_mul(0x9E37).wrapping_add(0xC11)), &mut *diag) };
	let n_scn = if std::env::var("C11_LP_ONLY").is_ok() || std::env::var("C11_UO_ONLY").is_ok() { 0 } else { n_scn };
	let t0 = std::time::Instant::now();
	for si in 0..n_scn {
		let sseed = args.seed.wrapping_mul(1000).wrapping_add(si);
		let sc = gen_scn(sseed, &mut rng);
		let fin = match guarded(AssertUnwindSafe(|| reference(&sc, &mut rng))) {
			Ok(Ok(f)) => f,
			Ok(Err(e)) => { let _ = writeln!(diag, "scenario {:?}: reference failed: {}", sc, e); rec.discarded += 1; skipped += 1; continue; },
			Err(p) => { let _ = writeln!(diag, "scenario {:?}: reference panicked: {}", sc, p); rec.discarded += 1; skipped += 1; continue; },
		};
		n_txs += fin.n_txs; n_blocks += fin.blocks.len();
		let hend = fin.h0 + fin.blocks.len() as u32;
		let tx_heights: Vec<u32> = fin.blocks.iter().enumerate().filter(|(_, b)| !b.txdata.is_empty()).map(|(i, _)| fin.h0 + 1 + i as u32).collect();
		// groups: fork-free, then fork shapes
		let mut groups: Vec<Option<Fork>> = vec![None];
		for fi in 0..forks_per {
			let depth = if fi == 0 { ANTI_REORG_DELAY } else { 1 + rng.below(ANTI_REORG_DELAY as u64) as u32 };
			let base = if tx_heights.is_empty() { fin.h0 + 1 } else { *rng.pick(&tx_heights) };
			let at = (base + rng.below(7) as u32).saturating_sub(3).max(fin.h0).min(hend - ANTI_REORG_DELAY - 2);
			groups.push(Some(Fork { at, depth, variant: rng.below(3) as u8 }));
		}
		for (gi, g) in groups.into_iter().enumerate() {
			n_groups += 1;
			let styles: Vec<ConnectStyle> = if g.is_none() || args.thorough { STYLES.to_vec() } else {
				// one style of every disconnect family, plus two random ones
				let mut v = vec![ConnectStyle::FullBlockViaListen, ConnectStyle::FullBlockDisconnectionsSkippingViaListen, ConnectStyle::BestBlockFirst,
					ConnectStyle::TransactionsFirstSkippingBlocks, ConnectStyle::TransactionsFirstReorgsOnlyTip, ConnectStyle::BestBlockFirstReorgsOnlyTip];
				for _ in 0..2 { let s = *rng.pick(&STYLES); if !v.contains(&s) { v.push(s); } }
				v
			};
			let modes: Vec<bool> = if g.is_none() { vec![true] } else { vec![true, false] };
			// a known finding is reported once per (scenario, fork shape); further hits are only counted
			let (mut kf1_here, mut kf2_here) = (false, false);
			for live in modes {
				let mode = if live { "live" } else { "batched" };
				let mut base: Option<(ConnectStyle, RunOut)> = None;
				for &st in styles.iter() {
					if only.map(|o| o != si).unwrap_or(false) || only_group.map(|o| o != gi).unwrap_or(false) || only_style.map(|o| STYLES[o] != st).unwrap_or(false) { continue; }
					n_runs += 1;
					let out = match replay(&sc, &fin, st, g, live, &mut rec) {
						Ok(o) => o,
						Err(e) => {
							let is_kf2 = g.is_some() && e.contains("pending_claim_requests.get(&claim_id).is_none()");
							let kf = if is_kf2 { n_kf2 += 1; format!("{} — ", KF2) } else { String::new() };
							if is_kf2 && kf2_here { continue; }
							kf2_here |= is_kf2;
							rec.oracle_fail(format!("{}delivery failed: scenario seed={} {:?} fork={:?} polling={} style={:?}: {}", kf, sc.seed, sc, g, mode, st, e));
							continue;
						},
					};
					if !out.lost[0].is_empty() || !out.lost[1].is_empty() {
						if !live && g.is_some() {
							n_kf1 += 1;
							if kf1_here { continue; }
							kf1_here = true;
							rec.oracle_fail(format!("{} — scenario seed={} {:?} fork={:?} polling={} style={:?}: transactions {:?} (node 0) {:?} (node 1) of the final chain resolve an HTLC but are neither awaiting nor resolved at the end: [{}] [{}]", KF1, sc.seed, sc, g, mode, st, out.lost[0], out.lost[1], out.end[0], out.end[1]));
							continue; // reported on its own; not a baseline for the cross-style comparison
						}
						rec.oracle_fail(format!("HTLC resolution lost: scenario seed={} {:?} fork={:?} polling={} style={:?}: transactions {:?} / {:?}: [{}] [{}]", sc.seed, sc, g, mode, st, out.lost[0], out.lost[1], out.end[0], out.end[1]));
					}
					match &base {
						None => base = Some((st, out)),
						Some((bst, b)) => {
							for n in 0..2 {
								if out.end[n] != b.end[n] {
									rec.oracle_fail(format!("styles disagree at the end: scenario seed={} {:?} fork={:?} polling={} node={} {:?}: [{}] vs {:?}: [{}]", sc.seed, sc, g, mode, n, bst, b.end[n], st, out.end[n]));
								}
							}
							if g.is_none() {
								for (x, y) in b.obs.iter().zip(out.obs.iter()) {
									for n in 0..2 { if x.1[n] != y.1[n] {
										rec.oracle_fail(format!("styles disagree at height {}: scenario seed={} {:?} node={} {:?}: [{}] vs {:?}: [{}]", x.0, sc.seed, sc, n, bst, x.1[n], st, y.1[n]));
									} }
								}
							}
						},
					}
				}
			}
		}
		let _ = writeln!(diag, "c11: scenario {} done, {} txs, {} blocks, {:.1}s", si, fin.n_txs, fin.blocks.len(), t0.elapsed().as_secs_f32());
	}
	rec.notes.insert("rule".into(), format!("{} seeded force-close scenarios ({} skipped), {} mined transactions over {} blocks; {} (scenario, fork shape) groups, {} fresh-copy deliveries (all 11 ConnectStyles fork-free; fork depths 1..={} incl. one depth-{} per scenario, 3 fork contents); fork groups are delivered twice: events polled after every call (compared with the model) and only at checkpoints (cross-style only); every util call of a polled run is one correspondence case (distinct by op text); known-finding hits: KF-C11-1 x{}, KF-C11-2 x{}; LATE-PREIMAGE family: {} histories ({} skipped; {} with a preimage provided >= 1 block after the commitment confirmed) = every k in 0..={} x every fork point H-2..=tip-1, {} fresh-copy deliveries over {} blocks, claim bookkeeping (creation heights) compared with the model after every call; KF-C11-4 x{} (either commitment kind, after final); UNCONFIRM-ORDER family: {} of these histories remove the commitment AND the recipient's claim transaction by transaction_unconfirmed calls in every order (lowest-first, highest-first, get_relevant_txids order) followed by a tip-only re-sync (no best_block_updated below the removed transactions), oracle O5 (get_relevant_txids after transaction_unconfirmed)", n_scn, skipped, n_txs, n_blocks, n_groups, n_runs, ANTI_REORG_DELAY, ANTI_REORG_DELAY, n_kf1, n_kf2, lpst.scenarios, lpst.skipped, lpst.late, ANTI_REORG_DELAY + 1, lpst.runs, lpst.blocks, lpst.kf4, lpst.uo));
	rec.finish();
}
