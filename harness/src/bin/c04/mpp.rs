//! c04mpp — end-to-end MPP receive scenarios on real nodes (see ../c04.rs for the op protocol).
use ldk_verif_harness::common::*;

pub fn mpp_model(args: &Args) {
	let mut rec = Rec::new(&args.out, "c04mpp");
	rec.notes.insert("rule".into(), "stub".into());
	rec.finish();
}
