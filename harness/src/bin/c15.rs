//! C15 — encrypted transport: the real `PeerChannelEncryptor` (through `verif_hooks::noise::Enc`) and
//! two real `PeerManager`s, against the Lean model driver `drv_c15`.
//!
//! model c15cipher — ops (see lean/LdkModel/Driver/C15.lean):
//!   act1 / pact1 / pact2 / pact3   handshake acts, ECDH outputs supplied on the op line
//!   enc / dech / decm              transport frames, byte for byte
//! model c15peer:
//!   pconn ; f init|ping|pong|msg|raw … ; run <corrupt_off|-> <xor> <chunk sizes>
//!       → n=<messages handed to the far custom handler> d=<digest> open|disc
//!   pact1 … (garbage instead of act one) ; oracle-only cases are written as directives
use ldk_verif_harness::common::*;
use bitcoin::secp256k1::ecdh::SharedSecret;
use bitcoin::secp256k1::{PublicKey, Secp256k1, SecretKey};
use lightning::io;
use lightning::ln::msgs::{self, DecodeError, Init, LightningError};
use lightning::ln::peer_handler::{
	CustomMessageHandler, ErroringMessageHandler, IgnoringMessageHandler, MessageHandler, PeerManager,
	SocketDescriptor,
};
use lightning::ln::verif_hooks::noise::Enc;
use lightning::ln::wire::{CustomMessageReader, Type};
use lightning::types::features::{InitFeatures, NodeFeatures};
use lightning::util::ser::{LengthLimitedRead, Writeable, Writer};
use lightning::util::test_utils::TestNodeSigner;
use std::collections::VecDeque;
use std::panic::AssertUnwindSafe;
use std::sync::{Arc, Mutex};

type Secp = Secp256k1<bitcoin::secp256k1::All>;

fn sk(b: [u8; 32]) -> SecretKey { SecretKey::from_slice(&b).unwrap() }
fn rand_sk(rng: &mut Rng) -> SecretKey { loop { if let Ok(k) = SecretKey::from_slice(&rng.bytes32()) { return k; } } }
fn pk(secp: &Secp, s: &SecretKey) -> PublicKey { PublicKey::from_secret_key(secp, s) }
/// ECDH as LDK computes it (SHA256 of the compressed shared point); "-" when the 33 bytes are not a key
fn ss_hex(their_pub33: &[u8], our: &SecretKey) -> String {
	match PublicKey::from_slice(their_pub33) { Ok(p) => hex(&SharedSecret::new(&p, our).secret_bytes()), Err(_) => "-".into() }
}
fn outcome<T, F: FnOnce() -> Result<T, ()>>(f: F) -> Result<Result<T, ()>, String> { guarded(AssertUnwindSafe(f)) }

// ------------------------------------------------------------------------------------------------
// c15cipher
// ------------------------------------------------------------------------------------------------

struct Party { stat: SecretKey, eph: SecretKey }
static RARE_BIG: std::sync::atomic::AtomicBool = std::sync::atomic::AtomicBool::new(false);

fn msg_size(rng: &mut Rng, rare_big: bool) -> usize {
	// the thorough tier runs 10^5 messages: large ones are drawn 10x less often there (file sizes)
	match rng.below(if rare_big { 4000 } else { 400 }) {
		0 | 1 => 65535, 2 | 3 => 65534, 4 | 5 => rng.range(9000, 65535) as usize,
		6..=15 => 0, 16..=25 => 1, 26..=35 => 2, 36..=50 => rng.range(1000, 9000) as usize,
		51..=60 => rng.range(60, 70) as usize,
		_ => rng.range(0, 300) as usize,
	}
}

fn cipher_session(rec: &mut Rec, rng: &mut Rng, secp: &Secp, ini: &Party, res: &Party, n_ab: usize, n_ba: usize, act_offsets: &[usize], tamper: bool) {
	let ini_signer = TestNodeSigner::new(ini.stat);
	let res_signer = TestNodeSigner::new(res.stat);
	let (ini_pub, res_pub) = (pk(secp, &ini.stat), pk(secp, &res.stat));
	let (ie_pub, re_pub) = (pk(secp, &ini.eph), pk(secp, &res.eph));
	let h33 = |p: &PublicKey| hex(&p.serialize());

	// ---- act one
	let mut a = Enc::new_outbound(res_pub, ini.eph);
	let act1 = a.get_act_one(secp);
	rec.case(&format!("act1 {} {} {}", h33(&res_pub), h33(&ie_pub), ss_hex(&res_pub.serialize(), &ini.eph)), &hex(&act1), "act1", true);

	// ---- act one processed by the responder: every corrupted variant first, then the genuine one
	let pact1_op = |act: &[u8]| format!("pact1 {} {} {} {} {}", h33(&res_pub), hex(act), ss_hex(&act[1..34], &res.stat), h33(&re_pub), ss_hex(&act[1..34], &res.eph));
	for &off in act_offsets.iter().filter(|o| **o < 50) {
		let mut bad = act1; bad[off] ^= 1 << rng.below(8);
		let mut b = Enc::new_inbound(&&res_signer);
		let r = outcome(|| b.process_act_one_with_keys(&bad, &&res_signer, res.eph, secp));
		let ans = match &r { Ok(Ok(a2)) => hex(a2), Ok(Err(())) => "err".into(), Err(p) => format!("panic {}", p) };
		if ans != "err" { rec.oracle_fail(format!("corrupted act one accepted/panicked: offset {} act {} -> {}", off, hex(&bad), ans)); }
		rec.case(&pact1_op(&bad), &ans, "pact1:corrupt", true);
	}
	let mut b = Enc::new_inbound(&&res_signer);
	let act2 = match b.process_act_one_with_keys(&act1, &&res_signer, res.eph, secp) { Ok(x) => x, Err(()) => { rec.oracle_fail("genuine act one rejected".into()); return; } };
	rec.case(&pact1_op(&act1), &hex(&act2), "pact1:ok", true);

	// ---- act two processed by the initiator
	let pact2_op = |act: &[u8]| format!("pact2 {} {} {} {}", hex(act), h33(&ini_pub), ss_hex(&act[1..34], &ini.eph), ss_hex(&act[1..34], &ini.stat));
	for &off in act_offsets.iter().filter(|o| **o < 50) {
		let mut bad = act2; bad[off] ^= 1 << rng.below(8);
		let mut a2 = Enc::new_outbound(res_pub, ini.eph);
		let _ = a2.get_act_one(secp);
		let r = outcome(|| a2.process_act_two(&bad, &&ini_signer).map(|x| x.0));
		let ans = match &r { Ok(Ok(a3)) => hex(a3), Ok(Err(())) => "err".into(), Err(p) => format!("panic {}", p) };
		if ans != "err" { rec.oracle_fail(format!("corrupted act two accepted/panicked: offset {} -> {}", off, ans)); }
		rec.case(&pact2_op(&bad), &ans, "pact2:corrupt", true);
	}
	let (act3, their) = match a.process_act_two(&act2, &&ini_signer) { Ok(x) => x, Err(()) => { rec.oracle_fail("genuine act two rejected".into()); return; } };
	if their != res_pub { rec.oracle_fail("initiator learnt a wrong responder id".into()); }
	rec.case(&pact2_op(&act2), &hex(&act3), "pact2:ok", true);

	// ---- act three processed by the responder
	let pact3_op = |act: &[u8]| format!("pact3 {} {}", hex(act), ss_hex(&ini_pub.serialize(), &res.eph));
	for &off in act_offsets.iter().filter(|o| **o < 66) {
		let mut bad = act3; bad[off] ^= 1 << rng.below(8);
		let mut b2 = Enc::new_inbound(&&res_signer);
		let _ = b2.process_act_one_with_keys(&act1, &&res_signer, res.eph, secp);
		let r = outcome(|| b2.process_act_three(&bad));
		let ans = match &r { Ok(Ok(id)) => hex(&id.serialize()), Ok(Err(())) => "err".into(), Err(p) => format!("panic {}", p) };
		if ans != "err" { rec.oracle_fail(format!("corrupted act three accepted/panicked: offset {} -> {}", off, ans)); }
		rec.case(&pact3_op(&bad), &ans, "pact3:corrupt", true);
	}
	let id = match b.process_act_three(&act3) { Ok(x) => x, Err(()) => { rec.oracle_fail("genuine act three rejected".into()); return; } };
	if id != ini_pub { rec.oracle_fail("responder learnt a wrong initiator id".into()); }
	rec.case(&pact3_op(&act3), &hex(&id.serialize()), "pact3:ok", true);
	if !(a.is_ready_for_encryption() && b.is_ready_for_encryption()) { rec.oracle_fail("handshake finished but not ready for encryption".into()); }

	// ---- transport, both directions interleaved
	let (mut left_ab, mut left_ba) = (n_ab, n_ba);
	let mut old_frames: Vec<Vec<u8>> = vec![];
	let mut sent = 0usize;
	while left_ab + left_ba > 0 {
		let ab = if left_ba == 0 { true } else if left_ab == 0 { false } else { rng.chance(left_ab as u64, (left_ab + left_ba) as u64) };
		let (snd, rcv, s, r) = if ab { left_ab -= 1; (&mut a, &mut b, "A", "B") } else { left_ba -= 1; (&mut b, &mut a, "B", "A") };
		let sz = msg_size(rng, RARE_BIG.load(std::sync::atomic::Ordering::Relaxed)); let m = rng.bytes(sz);
		let frame = match snd.encrypt_buffer(&m) { Ok(f) => f, Err(()) => { rec.oracle_fail("encrypt_buffer refused a message <= 65535".into()); return; } };
		if frame.len() != m.len() + 34 { rec.oracle_fail(format!("frame length {} for message of {}", frame.len(), m.len())); }
		let class = if m.len() > 60000 { "enc:max" } else if m.len() < 2 { "enc:tiny" } else { "enc" };
		rec.case(&format!("enc {} {}", s, hex(&m)), &hex(&frame), class, true);
		sent += 1;
		// tampering attempts against the receiver before the genuine frame (a failed decrypt leaves
		// the receiver usable: the counter is only advanced on success)
		if tamper && ab && rng.chance(1, 40) {
			for _ in 0..6 {
				let mut h = frame[..18].to_vec(); h[rng.below(18) as usize] ^= 1 << rng.below(8);
				let ans = match outcome(|| rcv.decrypt_length_header(&h)) { Ok(Ok(l)) => l.to_string(), Ok(Err(())) => "err".into(), Err(p) => format!("panic {}", p) };
				if ans != "err" { rec.oracle_fail(format!("corrupted length header accepted: {}", ans)); }
				rec.case(&format!("dech {} {}", r, hex(&h)), &ans, "dech:corrupt", true);
			}
			if let Some(old) = old_frames.last() {
				let ans = match outcome(|| rcv.decrypt_length_header(&old[..18])) { Ok(Ok(l)) => l.to_string(), Ok(Err(())) => "err".into(), Err(p) => format!("panic {}", p) };
				if ans != "err" { rec.oracle_fail(format!("replayed length header accepted: {}", ans)); }
				rec.case(&format!("dech {} {}", r, hex(&old[..18])), &ans, "dech:replay", true);
			}
		}
		let len = match outcome(|| rcv.decrypt_length_header(&frame[..18])) { Ok(Ok(l)) => l as usize, other => { rec.oracle_fail(format!("genuine length header rejected: {:?}", other.map(|x| x.map(|_| ())))); return; } };
		if len != m.len() { rec.oracle_fail(format!("length header {} for message of {}", len, m.len())); }
		rec.case(&format!("dech {} {}", r, hex(&frame[..18])), &len.to_string(), if sent % 500 == 1 { "dech:after-rotation" } else { "dech" }, true);
		if tamper && ab && rng.chance(1, 40) {
			for _ in 0..4 {
				let mut body = frame[18..].to_vec(); let o = rng.below(body.len() as u64) as usize; body[o] ^= 1 << rng.below(8);
				let op = format!("decm {} {}", r, hex(&body));
				let ans = match outcome(|| rcv.decrypt_message(&mut body)) { Ok(Ok(())) => "accepted".into(), Ok(Err(())) => "err".into(), Err(p) => format!("panic {}", p) };
				if ans != "err" { rec.oracle_fail(format!("corrupted body accepted: {}", ans)); }
				rec.case(&op, &ans, "decm:corrupt", true);
			}
			if let Some(old) = old_frames.last() {
				if old.len() == frame.len() {
					let mut body = old[18..].to_vec();
					let op = format!("decm {} {}", r, hex(&body));
					let ans = match outcome(|| rcv.decrypt_message(&mut body)) { Ok(Ok(())) => "accepted".into(), Ok(Err(())) => "err".into(), Err(p) => format!("panic {}", p) };
					if ans != "err" { rec.oracle_fail("replayed body accepted".into()); }
					rec.case(&op, &ans, "decm:replay", true);
				}
			}
		}
		let mut body = frame[18..].to_vec();
		let op = format!("decm {} {}", r, hex(&body));
		match outcome(|| rcv.decrypt_message(&mut body)) {
			Ok(Ok(())) => {
				let pt = &body[..body.len() - 16];
				if pt != &m[..] { rec.oracle_fail(format!("decrypted message differs from the sent one (len {})", m.len())); }
				rec.case(&op, &hex(pt), "decm", true);
			},
			other => { rec.oracle_fail(format!("genuine body rejected: {:?}", other)); return; },
		}
		if ab && m.len() < 400 && (old_frames.len() < 4 || rng.chance(1, 50)) { old_frames.push(frame); }
	}
}

fn run_cipher(args: &Args) {
	let mut rec = Rec::new(&args.out, "c15cipher");
	let mut rng = Rng::new(args.seed);
	let secp = Secp256k1::new();
	let all: Vec<usize> = (0..66).collect();
	RARE_BIG.store(args.thorough, std::sync::atomic::Ordering::Relaxed);
	// session 0: the BOLT-8 appendix A keys, every act offset, > 2500 messages one way (5 rotations)
	let ini = Party { stat: sk([0x11; 32]), eph: sk([0x12; 32]) };
	let res = Party { stat: sk([0x21; 32]), eph: sk([0x22; 32]) };
	let (n0, n0b) = if args.thorough { (60_000, 20_000) } else { (2600, 1100) };
	cipher_session(&mut rec, &mut rng, &secp, &ini, &res, n0 * args.scale as usize, n0b, &all, true);
	let sessions = if args.thorough { 40 } else { 6 };
	for i in 0..sessions {
		let ini = Party { stat: rand_sk(&mut rng), eph: rand_sk(&mut rng) };
		let res = Party { stat: rand_sk(&mut rng), eph: rand_sk(&mut rng) };
		let offs: Vec<usize> = if args.thorough || i == 0 { all.clone() } else { (0..12).map(|_| rng.below(66) as usize).collect() };
		let n = if args.thorough { 500 } else { 120 };
		let extra = rng.below(n as u64) as usize; cipher_session(&mut rec, &mut rng, &secp, &ini, &res, n + extra, n / 2, &offs, true);
	}
	// an over-long message is refused (release: Err(()); debug builds trip the debug_assert)
	{
		let mut a = Enc::new_outbound(pk(&secp, &res.stat), ini.eph);
		let _ = a.get_act_one(&secp);
		let m = vec![7u8; 65536];
		let ans = match outcome(|| a.encrypt_buffer(&m)) { Ok(Ok(f)) => hex(&f[..4]), Ok(Err(())) => "err".into(), Err(p) if p.contains("longer than 65535") => "err".into(), Err(p) => format!("panic {}", p) };
		rec.case(&format!("enc A {}", hex(&m)), &ans, "enc:too-long", true);
	}
	rec.notes.insert("rule".into(), "every op line is distinct by its text (random keys / messages); session 0 uses the BOLT-8 appendix A keys; corrupted acts: one flipped bit at every offset of act one (50), act two (50), act three (66); frames: sizes 0..65535, > 2500 one-way messages in session 0 (rotation every 500 messages); tampered/replayed boxes against the live receiver".into());
	rec.finish();
}

// ------------------------------------------------------------------------------------------------
// c15peer
// ------------------------------------------------------------------------------------------------

#[derive(Debug, Clone, PartialEq)]
struct Raw { ty: u16, data: Vec<u8> }
impl Writeable for Raw { fn write<W: Writer>(&self, w: &mut W) -> Result<(), io::Error> { w.write_all(&self.data) } }
impl Type for Raw { fn type_id(&self) -> u16 { self.ty } }

/// which types the far side's custom reader claims
fn reader_knows(t: u16) -> bool { t >= 32768 && t % 4 < 2 }

struct Handler { received: Mutex<Vec<Raw>>, outq: Mutex<Vec<(PublicKey, Raw)>> }
impl Handler { fn new() -> Self { Handler { received: Mutex::new(vec![]), outq: Mutex::new(vec![]) } } }
impl CustomMessageReader for Handler {
	type CustomMessage = Raw;
	fn read<R: LengthLimitedRead>(&self, ty: u16, buffer: &mut R) -> Result<Option<Raw>, DecodeError> {
		if !reader_knows(ty) { return Ok(None); }
		let mut data = vec![0u8; buffer.remaining_bytes() as usize];
		buffer.read_exact(&mut data).map_err(|_| DecodeError::ShortRead)?;
		Ok(Some(Raw { ty, data }))
	}
}
impl CustomMessageHandler for Handler {
	fn handle_custom_message(&self, msg: Raw, _from: PublicKey) -> Result<(), LightningError> { self.received.lock().unwrap().push(msg); Ok(()) }
	fn get_and_clear_pending_msg(&self) -> Vec<(PublicKey, Raw)> { std::mem::take(&mut *self.outq.lock().unwrap()) }
	fn peer_disconnected(&self, _: PublicKey) {}
	fn peer_connected(&self, _: PublicKey, _: &Init, _: bool) -> Result<(), ()> { Ok(()) }
	fn provided_node_features(&self) -> NodeFeatures { NodeFeatures::empty() }
	fn provided_init_features(&self, _: PublicKey) -> InitFeatures { InitFeatures::empty() }
}

#[derive(Default)]
struct Sock {
	/// bytes written by the owning PeerManager, not yet handed to the other side
	out: VecDeque<u8>,
	/// how many bytes the "kernel buffer" accepts right now (back-pressure)
	budget: usize,
	/// lengths of the buffers the PeerManager wrote (each `send_data` call passes the unwritten rest
	/// of exactly one queued buffer: an act or one encrypted message)
	frames: Vec<usize>,
	cur_remaining: usize,
	refused: bool,
	read_paused: bool,
	disconnected: bool,
	written: usize,
}
#[derive(Clone)]
struct Desc { id: u64, s: Arc<Mutex<Sock>> }
impl Desc { fn new(id: u64) -> Desc { Desc { id, s: Arc::new(Mutex::new(Sock::default())) } } }
impl PartialEq for Desc { fn eq(&self, o: &Desc) -> bool { self.id == o.id } }
impl Eq for Desc {}
impl std::hash::Hash for Desc { fn hash<H: std::hash::Hasher>(&self, h: &mut H) { self.id.hash(h) } }
impl SocketDescriptor for Desc {
	fn send_data(&mut self, data: &[u8], continue_read: bool) -> usize {
		let mut s = self.s.lock().unwrap();
		s.read_paused = !continue_read;
		if data.is_empty() || s.disconnected { return 0; }
		if s.cur_remaining == 0 { s.frames.push(data.len()); s.cur_remaining = data.len(); }
		let n = data.len().min(s.budget);
		s.budget -= n; s.cur_remaining -= n; s.written += n;
		s.out.extend(&data[..n]);
		if n < data.len() { s.refused = true; }
		n
	}
	fn disconnect_socket(&mut self) { self.s.lock().unwrap().disconnected = true; }
}

type PM = PeerManager<Desc, &'static ErroringMessageHandler, &'static IgnoringMessageHandler, &'static IgnoringMessageHandler, &'static NullLogger, &'static Handler, &'static TestNodeSigner, &'static IgnoringMessageHandler>;

struct Node { pm: PM, h: &'static Handler, id: PublicKey, secret: SecretKey }
fn leak<T>(x: T) -> &'static T { Box::leak(Box::new(x)) }
fn make_node(secp: &Secp, secret: SecretKey, eph: [u8; 32]) -> Node {
	let h = leak(Handler::new());
	let mh = MessageHandler { chan_handler: leak(ErroringMessageHandler::new()), route_handler: leak(IgnoringMessageHandler {}), onion_message_handler: leak(IgnoringMessageHandler {}), custom_message_handler: h, send_only_message_handler: leak(IgnoringMessageHandler {}) };
	let pm = PeerManager::new(mh, 0, &eph, leak(NullLogger), leak(TestNodeSigner::new(secret)));
	Node { pm, h, id: pk(secp, &secret), secret }
}

fn gen_payload(len: usize, seed: u64) -> Vec<u8> { (0..len).map(|i| (seed as usize + i * 31 + i / 256) as u8).collect() }
const DM: u128 = 2305843009213693951;
fn digest_step(h: u128, x: u128) -> u128 { (h * 1000003 + x) % DM }
fn digest_msg(mut h: u128, ty: u16, data: &[u8]) -> u128 {
	h = digest_step(h, 1000 + 2 + data.len() as u128);
	h = digest_step(h, (ty >> 8) as u128 + 1); h = digest_step(h, (ty & 255) as u128 + 1);
	for b in data { h = digest_step(h, *b as u128 + 1); }
	h
}
fn summary(msgs: &[Raw], disc: bool) -> String {
	let mut d = 7u128; for m in msgs { d = digest_msg(d, m.ty, &m.data); }
	format!("n={} d={} {}", msgs.len(), d, if disc { "disc" } else { "open" })
}
fn oracle_case(rec: &mut Rec, op: &str, class: &str) { rec.directive(op); rec.evaluations += 1; *rec.classes.entry(class.to_string()).or_insert(0) += 1; }

fn rand_chunk(rng: &mut Rng, avail: usize) -> usize {
	let n = match rng.below(20) { 0..=3 => rng.range(1, 8), 4..=10 => rng.range(1, 100), 11..=16 => rng.range(1, 5000), 17 | 18 => rng.range(1, 70000), _ => 18 } as usize;
	n.min(avail).max(1)
}
fn rand_budget(rng: &mut Rng) -> usize {
	match rng.below(10) { 0 | 1 => 0, 2 | 3 => rng.range(1, 64) as usize, 4..=6 => rng.range(1, 5000) as usize, 7 | 8 => rng.range(1, 200_000) as usize, _ => usize::MAX / 2 }
}

#[derive(Clone, Copy, PartialEq)]
enum Plan { Clean, Corrupt, Truncate }

/// Two PeerManagers; `sender_is_initiator` picks which side queues the messages.
fn pm_pair_scenario(rec: &mut Rec, rng: &mut Rng, secp: &Secp, n_msgs: usize, big: usize, sender_is_initiator: bool, plan: Plan, with_unknown: bool) {
	let a = make_node(secp, rand_sk(rng), rng.bytes32());
	let b = make_node(secp, rand_sk(rng), rng.bytes32());
	let (mut da, mut db) = (Desc::new(1), Desc::new(2));
	let act1 = match a.pm.new_outbound_connection(b.id, da.clone(), None) { Ok(x) => x, Err(_) => { rec.oracle_fail("new_outbound_connection failed".into()); return; } };
	{ let mut s = da.s.lock().unwrap(); s.frames.push(act1.len()); s.out.extend(&act1); s.written += act1.len(); }
	if b.pm.new_inbound_connection(db.clone(), None).is_err() { rec.oracle_fail("new_inbound_connection failed".into()); return; }
	let (snd, rcv) = if sender_is_initiator { (&a, &b) } else { (&b, &a) };
	let hs_len = if sender_is_initiator { 116 } else { 50 };

	// the messages: (type, payload)
	let mut msgs: Vec<(u16, usize, u64)> = vec![];
	for i in 0..n_msgs {
		let mut len = if i < big { [65533usize, 65532, 65000, 40000][i % 4] } else { match rng.below(12) { 0 => 0, 1 => 1, 2 => rng.range(300, 3000) as usize, _ => rng.range(0, 200) as usize } };
		if len == 68 || len == 2 { len += 1; } // plaintext 70 / 4 are the sizes of LDK's own ping / pong
		let ty = if with_unknown && rng.chance(1, 6) { 20001 + 2 * rng.below(3000) as u16 } // unknown odd, not a BOLT type
			else if with_unknown && rng.chance(1, 8) { 32768 + 4 * rng.below(100) as u16 + 3 } // custom-range, unknown to the reader, odd
			else { 32768 + 4 * rng.below(8000) as u16 + rng.below(2) as u16 };
		msgs.push((ty, len, rng.below(256)));
	}
	let mut queued = false;
	let mut fed = 0usize; // bytes of the sender's stream handed to the receiver
	let mut chunks: Vec<usize> = vec![];
	let mut disc = false;
	let mut corrupt: Option<(usize, u8)> = None;
	let total_cipher: usize = msgs.iter().map(|m| m.1 + 2 + 34).sum();
	let corrupt_at = if plan == Plan::Corrupt { Some(hs_len + rng.below((total_cipher + 60) as u64) as usize) } else { None };
	let truncate_at = if plan == Plan::Truncate { Some(hs_len + rng.below((total_cipher + 60) as u64) as usize) } else { None };
	let mut idle = 0;
	let mut steps = 0u64;
	let r = guarded(AssertUnwindSafe(|| {
		loop {
			steps += 1;
			a.pm.process_events(); b.pm.process_events();
			if !queued && !a.pm.list_peers().is_empty() && !b.pm.list_peers().is_empty() {
				let mut q = snd.h.outq.lock().unwrap();
				for (ty, len, seed) in msgs.iter() { q.push((rcv.id, Raw { ty: *ty, data: gen_payload(*len, *seed) })); }
				queued = true;
				drop(q);
				snd.pm.process_events();
			}
			let drain = idle > 40 || steps > 400_000;
			let mut progress = false;
			for dir in 0..2 {
				let a_to_b = (dir == 0) ^ rng.chance(1, 2);
				let (wd, rd, rpm, wpm) = if a_to_b { (&mut da, &mut db, &b.pm, &a.pm) } else { (&mut db, &mut da, &a.pm, &b.pm) };
				let from_sender = a_to_b == sender_is_initiator;
				// writer side: give the socket some room and tell the PeerManager when it had been refused
				let was_refused = { let mut s = wd.s.lock().unwrap(); s.budget = if drain { usize::MAX / 2 } else { rand_budget(rng) }; let r = s.refused; if s.budget > 0 { s.refused = false; } r && s.budget > 0 };
				let before = wd.s.lock().unwrap().written;
				if was_refused || rng.chance(1, 4) { let _ = wpm.write_buffer_space_avail(wd); }
				if wd.s.lock().unwrap().written != before { progress = true; }
				// reader side
				let paused = rd.s.lock().unwrap().read_paused;
				let avail = wd.s.lock().unwrap().out.len();
				if avail == 0 || (paused && !drain && rng.chance(3, 4)) || (!drain && rng.chance(1, 5)) { continue; }
				let mut n = if drain { avail } else { rand_chunk(rng, avail) };
				if from_sender { if let Some(t) = truncate_at { if fed >= t { continue; } n = n.min(t - fed); } }
				let mut chunk: Vec<u8> = wd.s.lock().unwrap().out.drain(..n).collect();
				if from_sender {
					if let Some(c) = corrupt_at { if c >= fed && c < fed + n { let x = 1u8 << rng.below(8); chunk[c - fed] ^= x; corrupt = Some((c - hs_len, x)); } }
					let post = (fed + n).saturating_sub(fed.max(hs_len));
					if post > 0 { chunks.push(post); }
					fed += n;
				}
				progress = true;
				if rpm.read_event(rd, &chunk).is_err() {
					disc = true;
					wpm.socket_disconnected(wd);
					return;
				}
			}
			if da.s.lock().unwrap().disconnected || db.s.lock().unwrap().disconnected { disc = true; return; }
			if progress { idle = 0; } else { idle += 1; }
			if idle > 80 { return; }
		}
	}));
	if let Err(p) = r { rec.oracle_fail(format!("PeerManager panicked in a {}-message scenario: {}", n_msgs, p)); return; }
	if !queued && plan == Plan::Clean { rec.oracle_fail("handshake between two PeerManagers did not complete".into()); return; }

	// ---- describe the sender's stream to the model: frames as the PeerManager wrote them
	let sd = if sender_is_initiator { &da } else { &db };
	let frames = sd.s.lock().unwrap().frames.clone();
	let n_hs = if sender_is_initiator { 2 } else { 1 };
	rec.directive("pconn");
	let mut next = 0usize;
	let mut frame_of_msg: Vec<usize> = vec![]; // index (among post-handshake frames) of each custom message
	let mut offs = 0usize; let mut frame_start: Vec<usize> = vec![];
	for (i, fl) in frames.iter().enumerate().skip(n_hs) {
		let pl = fl - 34;
		frame_start.push(offs); offs += fl;
		if i == n_hs { rec.directive(&format!("f init {}", pl)); continue; }
		if next < msgs.len() && msgs[next].1 + 2 == pl { rec.directive(&format!("f msg {} {} {}", msgs[next].0, msgs[next].1, msgs[next].2)); frame_of_msg.push(i - n_hs); next += 1; }
		else if pl == 70 { rec.directive("f ping 70"); }
		else if pl == 4 { rec.directive("f pong 4"); }
		else { rec.oracle_fail(format!("unidentified frame of {} bytes in the sender's stream", fl)); return; }
	}
	let got = rcv.h.received.lock().unwrap().clone();
	let impl_ans = summary(&got, disc);
	let (coff, cx) = match corrupt { Some((o, x)) => (o.to_string(), x), None => ("-".to_string(), 0) };
	let sizes = if chunks.is_empty() { "-".to_string() } else { chunks.iter().map(|c| c.to_string()).collect::<Vec<_>>().join(",") };
	let class = match (plan, corrupt.is_some(), with_unknown) { (Plan::Truncate, _, _) => "run:truncated", (_, true, _) => "run:corrupted", (_, false, true) => "run:unknown-odd", _ => "run:clean" };
	rec.case(&format!("run {} {} {}", coff, cx, sizes), &impl_ans, class, true);

	// ---- implementation-side oracle (no model): exact prefix, disconnect exactly when corrupted
	let delivered_bytes = fed.saturating_sub(hs_len);
	let limit_frame = match corrupt { Some((o, _)) => frame_start.iter().rposition(|s| *s <= o).unwrap_or(0), None => usize::MAX };
	let mut expect: Vec<Raw> = vec![];
	for (k, (ty, len, seed)) in msgs.iter().enumerate() {
		if k >= frame_of_msg.len() { break; }
		let fi = frame_of_msg[k];
		if fi >= limit_frame { break; }
		if frame_start[fi] + frames[fi + n_hs] > delivered_bytes { break; }
		if reader_knows(*ty) { expect.push(Raw { ty: *ty, data: gen_payload(*len, *seed) }); }
	}
	let corrupted_frame_complete = match corrupt { Some(_) => limit_frame < frame_start.len() && frame_start[limit_frame] + 18 <= delivered_bytes, None => false };
	if got != expect {
		let first = got.iter().zip(expect.iter()).position(|(x, y)| x != y).unwrap_or(got.len().min(expect.len()));
		rec.oracle_fail(format!("delivered sequence differs from the sent one: got {} expected {} first difference at {} (plan corrupt={:?} trunc={:?})", got.len(), expect.len(), first, corrupt, truncate_at));
	}
	if corrupt.is_some() && corrupted_frame_complete && !disc { rec.oracle_fail(format!("corrupted byte at stream offset {:?} did not drop the connection", corrupt)); }
	if corrupt.is_none() && disc { rec.oracle_fail("connection dropped without any corruption".into()); }
}

/// The harness itself is the peer (speaking through `Enc`) of one real PeerManager.
struct EncPeer { enc: Enc, node: Node, d: Desc, their_init: Vec<u8> }

fn enc_connect(rng: &mut Rng, secp: &Secp, harness_initiates: bool) -> Result<EncPeer, String> {
	let node = make_node(secp, rand_sk(rng), rng.bytes32());
	let my = rand_sk(rng);
	let signer = TestNodeSigner::new(my);
	let mut d = Desc::new(7);
	d.s.lock().unwrap().budget = usize::MAX / 2;
	let take = |d: &Desc, n: usize| -> Vec<u8> { d.s.lock().unwrap().out.drain(..n).collect() };
	let mut enc;
	if harness_initiates {
		enc = Enc::new_outbound(node.id, rand_sk(rng));
		let act1 = enc.get_act_one(secp);
		node.pm.new_inbound_connection(d.clone(), None).map_err(|_| "inbound")?;
		node.pm.read_event(&mut d, &act1).map_err(|_| "act1 rejected")?;
		node.pm.process_events();
		let act2 = take(&d, 50);
		let (act3, _) = enc.process_act_two(&act2, &&signer).map_err(|_| "act2 rejected")?;
		node.pm.read_event(&mut d, &act3).map_err(|_| "act3 rejected")?;
	} else {
		enc = Enc::new_inbound(&&signer);
		let act1 = node.pm.new_outbound_connection(pk(secp, &my), d.clone(), None).map_err(|_| "outbound")?;
		let act2 = enc.process_act_one_with_keys(&act1, &&signer, rand_sk(rng), secp).map_err(|_| "act1 rejected")?;
		node.pm.read_event(&mut d, &act2).map_err(|_| "act2 rejected")?;
		node.pm.process_events();
		let act3 = take(&d, 66);
		enc.process_act_three(&act3).map_err(|_| "act3 rejected")?;
	}
	node.pm.process_events();
	// the node's Init: decrypt it and echo it back later (identical features are compatible)
	let hdr = take(&d, 18);
	let len = enc.decrypt_length_header(&hdr).map_err(|_| "init header")? as usize;
	let mut body = take(&d, len + 16);
	enc.decrypt_message(&mut body).map_err(|_| "init body")?;
	body.truncate(len);
	if body.len() < 2 || body[0] != 0 || body[1] != 16 { return Err("first message of the node is not Init".into()); }
	Ok(EncPeer { enc, node, d, their_init: body })
}

/// `plain`: the plaintext messages the harness sends; `corrupt`: (frame index, offset in frame)
fn enc_scenario(rec: &mut Rec, rng: &mut Rng, secp: &Secp, plain: Vec<Vec<u8>>, corrupt: Option<(usize, usize)>, class: &str, harness_initiates: bool) {
	let mut p = match enc_connect(rng, secp, harness_initiates) { Ok(p) => p, Err(e) => { rec.oracle_fail(format!("handshake with a real PeerManager failed: {}", e)); return; } };
	rec.directive("pconn");
	let mut stream: Vec<u8> = vec![];
	let mut starts = vec![];
	for m in plain.iter() {
		let m: &Vec<u8> = if m.len() == 1 && m[0] == 0xfe { &p.their_init } else { m }; // placeholder = echo their Init
		starts.push(stream.len());
		stream.extend(p.enc.encrypt_buffer(m).unwrap());
		rec.directive(&format!("f raw {}", hex(m)));
	}
	let mut cspec = ("-".to_string(), 0u8);
	if let Some((fi, off)) = corrupt { let o = starts[fi] + off; let x = 1u8 << rng.below(8); stream[o] ^= x; cspec = (o.to_string(), x); }
	let mut chunks = vec![]; let mut pos = 0; let mut disc = false;
	let r = guarded(AssertUnwindSafe(|| {
		while pos < stream.len() {
			let n = rand_chunk(rng, stream.len() - pos);
			chunks.push(n);
			let res = p.node.pm.read_event(&mut p.d, &stream[pos..pos + n]);
			pos += n;
			if res.is_err() { disc = true; break; }
			p.node.pm.process_events();
			if p.d.s.lock().unwrap().disconnected { disc = true; break; }
			p.d.s.lock().unwrap().budget = usize::MAX / 2;
			p.d.s.lock().unwrap().out.clear();
		}
	}));
	if let Err(e) = r { rec.oracle_fail(format!("PeerManager panicked on a peer's messages ({}): {}", class, e)); return; }
	let got = p.node.h.received.lock().unwrap().clone();
	let sizes = chunks.iter().map(|c| c.to_string()).collect::<Vec<_>>().join(",");
	rec.case(&format!("run {} {} {}", cspec.0, cspec.1, sizes), &summary(&got, disc), class, true);
	// oracle, independent of the model: walk the plaintext list with the BOLT-1 rules
	let mut expect = vec![]; let mut want_disc = false; let mut seen_init = false;
	for (i, m) in plain.iter().enumerate() {
		let m: &Vec<u8> = if m.len() == 1 && m[0] == 0xfe { &p.their_init } else { m };
		if let Some((fi, _)) = corrupt { if fi == i { want_disc = true; break; } }
		if m.len() < 2 { want_disc = true; break; }
		let ty = u16::from_be_bytes([m[0], m[1]]);
		if ty == 16 { if seen_init { want_disc = true; break; } seen_init = true; continue; }
		if !seen_init { want_disc = true; break; }
		if ty == 18 || ty == 19 { continue; }
		if reader_knows(ty) { expect.push(Raw { ty, data: m[2..].to_vec() }); }
		else if ty % 2 == 0 { want_disc = true; break; }
	}
	if got != expect { rec.oracle_fail(format!("{}: handler received {} messages, expected {}", class, got.len(), expect.len())); }
	if want_disc != disc { rec.oracle_fail(format!("{}: connection {} but the rules say {}", class, if disc { "dropped" } else { "kept" }, if want_disc { "drop" } else { "keep" })); }
}

fn custom(ty: u16, len: usize, seed: u64) -> Vec<u8> { let mut v = ty.to_be_bytes().to_vec(); v.extend(gen_payload(len, seed)); v }
fn known_ty(rng: &mut Rng) -> u16 { 32768 + 4 * rng.below(8000) as u16 + rng.below(2) as u16 }

fn run_peer(args: &Args) {
	let mut rec = Rec::new(&args.out, "c15peer");
	let mut rng = Rng::new(args.seed ^ 0xc15);
	let secp = Secp256k1::new();
	let echo_init = vec![0xfeu8];

	// (1) two PeerManagers: identity delivery under fragmentation / coalescing / back-pressure
	let (n_long, n_runs, n_small) = if args.thorough { (6000, 400, 300) } else { (1300, 60, 120) };
	pm_pair_scenario(&mut rec, &mut rng, &secp, n_long, 6, true, Plan::Clean, false);
	pm_pair_scenario(&mut rec, &mut rng, &secp, n_long - 150, 3, false, Plan::Clean, true);
	for i in 0..n_runs {
		let plan = match i % 3 { 0 => Plan::Clean, 1 => Plan::Corrupt, _ => Plan::Truncate };
		let n = 1 + rng.below(n_small) as usize;
		let (c1, c2) = (rng.chance(1, 2), rng.chance(1, 2)); pm_pair_scenario(&mut rec, &mut rng, &secp, n, (i % 2) as usize, c1, plan, c2);
	}

	// (2) the harness as peer: protocol rules
	let n_rules = if args.thorough { 60 } else { 12 };
	for _ in 0..n_rules {
		let hi = rng.chance(1, 2);
		// non-Init first message: custom, ping, unknown odd
		for first in [custom(known_ty(&mut rng), 10, 1), { let mut p = vec![0u8, 18, 0, 0, 0, 4]; p.extend([0u8; 4]); p }, custom(20001, 3, 2)] {
			let k = known_ty(&mut rng); enc_scenario(&mut rec, &mut rng, &secp, vec![first, echo_init.clone(), custom(k, 5, 3)], None, "gate:non-init-first", hi);
		}
		// Init, known, unknown odd (ignored), known, unknown even (drop), known (never seen)
		let k1 = known_ty(&mut rng); let k2 = known_ty(&mut rng);
		let (o1, e1, e2) = (20001 + 2 * rng.below(1000) as u16, 20000 + 2 * rng.below(1000) as u16, 32768 + 2 + 4 * rng.below(1000) as u16);
		enc_scenario(&mut rec, &mut rng, &secp, vec![echo_init.clone(), custom(k1, 20, 4), custom(o1, 8, 5), custom(32768 + 3, 8, 5), custom(k2, 0, 6), custom(e1, 8, 7), custom(k1, 9, 8)], None, "gate:unknown-even-odd", hi);
		enc_scenario(&mut rec, &mut rng, &secp, vec![echo_init.clone(), custom(k1, 20, 4), custom(e2, 8, 7), custom(k1, 9, 8)], None, "gate:unknown-even-custom-range", hi);
		// second Init
		enc_scenario(&mut rec, &mut rng, &secp, vec![echo_init.clone(), custom(k1, 1, 4), echo_init.clone(), custom(k1, 2, 8)], None, "gate:second-init", hi);
		// messages shorter than a type
		for short in [vec![], vec![0x80u8]] {
			enc_scenario(&mut rec, &mut rng, &secp, vec![echo_init.clone(), custom(k1, 1, 4), short, custom(k1, 2, 8)], None, "frame:len<2", hi);
		}
		// corruption at a chosen place of a chosen frame: header, body, tags; replay of an earlier frame is
		// the same as arbitrary bytes at that position (covered by the cipher model with real frames)
		let body_len = rng.range(0, 400) as usize;
		let seq = vec![echo_init.clone(), custom(k1, 7, 1), custom(k2, body_len, 2), custom(k1, 9, 3)];
		let ro = rng.below((36 + body_len) as u64) as usize;
		for off in [0usize, 1, 2, 17, 18, 19, 18 + 2 + body_len, 18 + 2 + body_len + 15, ro] {
			enc_scenario(&mut rec, &mut rng, &secp, seq.clone(), Some((2, off)), "frame:corrupt-at-offset", hi);
		}
		let o = rng.below(30) as usize; enc_scenario(&mut rec, &mut rng, &secp, seq.clone(), Some((0, o)), "frame:corrupt-init", hi);
		// many messages through one Enc → PeerManager, past a rotation
		let mut many: Vec<Vec<u8>> = vec![echo_init.clone()]; for i in 0..520usize { let k = known_ty(&mut rng); many.push(custom(k, (i * 7) % 90, i as u64)); }
		enc_scenario(&mut rec, &mut rng, &secp, many, None, "enc→pm:rotation", hi);
	}

	// (3) garbage instead of a handshake (both directions), no panic, dropped when the act is complete
	let n_garbage = if args.thorough { 4000 } else { 400 };
	for i in 0..n_garbage {
		let node = make_node(&secp, rand_sk(&mut rng), rng.bytes32());
		let mut d = Desc::new(9); d.s.lock().unwrap().budget = usize::MAX / 2;
		let inbound = i % 2 == 0;
		let glen = 50 + rng.below(100) as usize; let mut g = rng.bytes(glen);
		match rng.below(4) { 0 => {}, 1 => { g[0] = 0; }, 2 => { g[0] = 0; g[1] = 2 + (rng.below(2) as u8); }, _ => { g[0] = 0; let p = pk(&secp, &rand_sk(&mut rng)).serialize(); g[1..34].copy_from_slice(&p); } }
		let res = guarded(AssertUnwindSafe(|| {
			if inbound { node.pm.new_inbound_connection(d.clone(), None).unwrap(); } else { let _ = node.pm.new_outbound_connection(pk(&secp, &rand_sk(&mut rng)), d.clone(), None).unwrap(); }
			let mut pos = 0; let mut err_at = None;
			while pos < g.len() { let n = rand_chunk(&mut rng, g.len() - pos).min(60); let r = node.pm.read_event(&mut d, &g[pos..pos + n]); pos += n; if r.is_err() { err_at = Some(pos); break; } node.pm.process_events(); }
			err_at
		}));
		match &res {
			Err(p) => rec.oracle_fail(format!("garbage handshake bytes panicked the PeerManager: {} bytes {}", p, hex(&g))),
			Ok(None) => rec.oracle_fail(format!("garbage handshake accepted: {}", hex(&g[..50]))),
			Ok(Some(at)) => { if *at < 50 { rec.oracle_fail("dropped before the act was complete".into()); } },
		}
		if inbound {
			// the same bytes through the model's act-one processing (the node's static key is known)
			let ans = if matches!(res, Ok(Some(_))) { "err" } else { "accepted" };
			let dummy = pk(&secp, &sk([3; 32]));
			rec.case(&format!("pact1 {} {} {} {} -", hex(&node.id.serialize()), hex(&g[..50]), ss_hex(&g[1..34], &node.secret), hex(&dummy.serialize())), ans, "garbage:act-one", true);
		} else {
			oracle_case(&mut rec, &format!("note garbage-act-two {}", hex(&g[..50])), "garbage:act-two");
		}
	}

	// (4) well-formed but nonsensical messages after a genuine handshake + Init: no panic
	let n_nonsense = if args.thorough { 2000 } else { 150 };
	for _ in 0..n_nonsense {
		let hi = rng.chance(1, 2); let mut p = match enc_connect(&mut rng, &secp, hi) { Ok(p) => p, Err(e) => { rec.oracle_fail(format!("handshake failed: {}", e)); continue; } };
		let mut seq: Vec<Vec<u8>> = vec![p.their_init.clone()];
		for _ in 0..(1 + rng.below(12)) { seq.push(nonsense_msg(&mut rng)); }
		let r = guarded(AssertUnwindSafe(|| {
			for m in seq.iter() {
				let f = p.enc.encrypt_buffer(m).unwrap();
				if p.node.pm.read_event(&mut p.d, &f).is_err() { return; }
				p.node.pm.process_events();
				if rng.chance(1, 6) { p.node.pm.timer_tick_occurred(); }
				p.d.s.lock().unwrap().out.clear();
			}
		}));
		if let Err(e) = r { rec.oracle_fail(format!("well-formed message sequence panicked the node: {} ; messages {:?}", e, seq.iter().map(|m| hex(&m[..m.len().min(40)])).collect::<Vec<_>>())); }
		oracle_case(&mut rec, &format!("note nonsense {}", seq.iter().skip(1).map(|m| format!("{}:{}", u16::from_be_bytes([m[0], m[1]]), m.len())).collect::<Vec<_>>().join(",")), "nonsense");
	}
	nonsense_chanman(&mut rec, &mut rng, &secp, if args.thorough { 1500 } else { 150 });
	rec.notes.insert("rule".into(), "every `run` is one whole connection (distinct by its chunk-size list): two real PeerManagers joined by descriptors that fragment, coalesce and refuse writes per PRNG (one > 1000-message run per direction), or the harness speaking BOLT-8 through the Enc hook to one PeerManager (protocol rules, corruption at chosen offsets); garbage handshakes and nonsensical BOLT messages are oracle cases (no panic)".into());
	rec.finish();
}


/// BOLT-8 handshake (harness = initiator, through `Enc`) with any PeerManager; returns the cipher
/// state and the node's decrypted Init.
fn enc_handshake_generic<CM: msgs::ChannelMessageHandler, RM: msgs::RoutingMessageHandler, OM: msgs::OnionMessageHandler, L: lightning::util::logger::Logger, CMH: CustomMessageHandler, NS: lightning::sign::NodeSigner, SM: lightning::ln::msgs::SendOnlyMessageHandler>(
	pm: &PeerManager<Desc, CM, RM, OM, L, CMH, NS, SM>, node_id: PublicKey, rng: &mut Rng, secp: &Secp, d: &mut Desc,
) -> Result<(Enc, Vec<u8>), String> {
	let my = rand_sk(rng);
	let signer = TestNodeSigner::new(my);
	d.s.lock().unwrap().budget = usize::MAX / 2;
	let take = |d: &Desc, n: usize| -> Result<Vec<u8>, String> { let mut s = d.s.lock().unwrap(); if s.out.len() < n { return Err("short write".into()); } Ok(s.out.drain(..n).collect()) };
	let mut enc = Enc::new_outbound(node_id, rand_sk(rng));
	let act1 = enc.get_act_one(secp);
	pm.new_inbound_connection(d.clone(), None).map_err(|_| "inbound")?;
	pm.read_event(d, &act1).map_err(|_| "act1 rejected")?;
	pm.process_events();
	let act2 = take(d, 50)?;
	let (act3, _) = enc.process_act_two(&act2, &&signer).map_err(|_| "act2 rejected")?;
	pm.read_event(d, &act3).map_err(|_| "act3 rejected")?;
	pm.process_events();
	let hdr = take(d, 18)?;
	let len = enc.decrypt_length_header(&hdr).map_err(|_| "init header")? as usize;
	let mut body = take(d, len + 16)?;
	enc.decrypt_message(&mut body).map_err(|_| "init body")?;
	body.truncate(len);
	Ok((enc, body))
}

/// (4b) the same nonsense through a PeerManager whose handlers are a real ChannelManager,
/// P2PGossipSync and OnionMessenger (the whole library behind the transport): no panic.
fn nonsense_chanman(rec: &mut Rec, rng: &mut Rng, secp: &Secp, n_conn: usize) {
	use lightning::ln::functional_test_utils::{create_chanmon_cfgs, create_network, create_node_cfgs, create_node_chanmgrs};
	let built = guarded(AssertUnwindSafe(|| {
		let chanmon_cfgs = leak(create_chanmon_cfgs(1));
		let node_cfgs = leak(create_node_cfgs(1, chanmon_cfgs));
		let chanmgrs = leak(create_node_chanmgrs(1, node_cfgs, &[None]));
		leak(create_network(1, node_cfgs, chanmgrs))
	}));
	let nodes = match built { Ok(n) => n, Err(e) => { rec.oracle_fail(format!("could not build a test node: {}", e)); return; } };
	let node = &nodes[0];
	let mh = MessageHandler { chan_handler: node.node, route_handler: &node.gossip_sync, onion_message_handler: &node.onion_messenger, custom_message_handler: leak(Handler::new()), send_only_message_handler: leak(IgnoringMessageHandler {}) };
	let pm = PeerManager::new(mh, 0, &rng.bytes32(), leak(NullLogger), node.keys_manager);
	let node_id = node.node.get_our_node_id();
	for i in 0..n_conn {
		let mut d = Desc::new(1000 + i as u64);
		let (mut enc, init) = match enc_handshake_generic(&pm, node_id, rng, secp, &mut d) { Ok(x) => x, Err(e) => { rec.oracle_fail(format!("handshake with the ChannelManager-backed PeerManager failed: {}", e)); return; } };
		let mut seq: Vec<Vec<u8>> = vec![init];
		for _ in 0..(1 + rng.below(12)) { seq.push(nonsense_msg(rng)); }
		let r = guarded(AssertUnwindSafe(|| {
			for m in seq.iter() {
				let f = enc.encrypt_buffer(m).unwrap();
				if pm.read_event(&mut d, &f).is_err() { return; }
				pm.process_events();
				let _ = node.node.get_and_clear_pending_events();
				if rng.chance(1, 6) { pm.timer_tick_occurred(); node.node.timer_tick_occurred(); }
				if d.s.lock().unwrap().disconnected { return; }
				d.s.lock().unwrap().out.clear();
			}
			pm.socket_disconnected(&d);
		}));
		if let Err(e) = r { rec.oracle_fail(format!("well-formed message sequence panicked a node with a real ChannelManager: {} ; messages {:?}", e, seq.iter().skip(1).map(|m| hex(&m[..m.len().min(60)])).collect::<Vec<_>>())); pm.socket_disconnected(&d); }
		oracle_case(rec, &format!("note nonsense-chanman {}", seq.iter().skip(1).map(|m| format!("{}:{}", u16::from_be_bytes([m[0], m[1]]), m.len())).collect::<Vec<_>>().join(",")), "nonsense:real-channelmanager");
	}
}

/// a BOLT message with a valid type and random (often well-formed) contents
fn nonsense_msg(rng: &mut Rng) -> Vec<u8> {
	use lightning::ln::types::ChannelId;
	let cid = ChannelId(rng.bytes32());
	let mut v = vec![];
	match rng.below(12) {
		0 => { let m = msgs::Ping { ponglen: rng.below(70000) as u16, byteslen: rng.below(300) as u16 }; v.extend(18u16.to_be_bytes()); v.extend(m.encode()); },
		1 => { let m = msgs::Pong { byteslen: rng.below(300) as u16 }; v.extend(19u16.to_be_bytes()); v.extend(m.encode()); },
		2 => { let m = msgs::ErrorMessage { channel_id: cid, data: "x".repeat(rng.below(50) as usize) }; v.extend(17u16.to_be_bytes()); v.extend(m.encode()); },
		3 => { let m = msgs::WarningMessage { channel_id: cid, data: "w".repeat(rng.below(50) as usize) }; v.extend(1u16.to_be_bytes()); v.extend(m.encode()); },
		4 => { let m = msgs::Shutdown { channel_id: cid, scriptpubkey: { let n = rng.below(40) as usize; bitcoin::ScriptBuf::from(rng.bytes(n)) } }; v.extend(38u16.to_be_bytes()); v.extend(m.encode()); },
		5 => { let m = msgs::UpdateFee { channel_id: cid, feerate_per_kw: rng.next() as u32 }; v.extend(134u16.to_be_bytes()); v.extend(m.encode()); },
		6 => { v.extend(135u16.to_be_bytes()); v.extend(rng.bytes32()); v.extend(rng.next().to_be_bytes()); v.extend(rng.bytes32()); v.extend((rng.next() as u16).to_be_bytes()); },
		7 => { let m = msgs::GossipTimestampFilter { chain_hash: bitcoin::constants::ChainHash::using_genesis_block(bitcoin::Network::Testnet), first_timestamp: rng.next() as u32, timestamp_range: rng.next() as u32 }; v.extend(265u16.to_be_bytes()); v.extend(m.encode()); },
		8 => { let m = msgs::QueryChannelRange { chain_hash: bitcoin::constants::ChainHash::using_genesis_block(bitcoin::Network::Testnet), first_blocknum: rng.next() as u32, number_of_blocks: rng.next() as u32 }; v.extend(263u16.to_be_bytes()); v.extend(m.encode()); },
		9 => {
			// a known channel-message type followed by random bytes of a plausible length
			let ty = *rng.pick(&[32u16, 33, 34, 35, 36, 128, 130, 131, 132, 133, 136, 2, 7, 9, 64, 65, 66, 72, 74, 127, 256, 257, 258, 259, 261, 262, 264, 513]);
			v.extend(ty.to_be_bytes()); let n = rng.below(400) as usize; v.extend(rng.bytes(n));
		},
		10 => { v.extend(known_ty(rng).to_be_bytes()); let n = rng.below(100) as usize; v.extend(rng.bytes(n)); },
		_ => { v.extend((rng.below(65536) as u16).to_be_bytes()); let n = rng.below(200) as usize; v.extend(rng.bytes(n)); },
	}
	v
}

fn main() {
	let args = &parse_args("c15cipher");
	match args.model.as_str() {
		"c15cipher" => run_cipher(args),
		"c15peer" => run_peer(args),
		m => { eprintln!("unknown model {}", m); std::process::exit(2); },
	}
}
