//! C15 — encrypted transport: the real `PeerChannelEncryptor` (through `verif_hooks::noise::Enc`) and
//! two real `PeerManager`s, against the Lean model driver `drv_c15`.
//!
//! model c15cipher — ops (see lean/LdkModel/Driver/C15.lean):
//!   act1 / pact1 / pact2 / pact3   handshake acts, ECDH outputs supplied on the op line
//!   enc / dech / decm              transport frames, byte for byte
//! model c15peer:
//!   pconn ; f init|ping|pong|msg|raw … ; run <corrupt_off|-> <xor> <chunk sizes>
//!       → n=<messages handed to the far custom handler> d=<digest> open|disc
//!   replies → plaintext lengths of the messages the receiving node built itself (pongs, warnings)
//! impl-side oracles (no model): delivered sequence = sent sequence or prefix + disconnect; a pong of
//! exactly N bytes for every ping with ponglen N < 65532 and nothing for the others; no panic
//! (catch_unwind around every read_event / process_events, the message sequence is reported); the
//! node never tries to send more than LN_MAX_MSG_LEN; nothing is dropped silently.
//!   pact1 … (garbage instead of act one) ; oracle-only cases are written as directives
use ldk_verif_harness::common::*;
use bitcoin::secp256k1::ecdh::SharedSecret;
use bitcoin::secp256k1::{PublicKey, Secp256k1, SecretKey};
use lightning::io;
use lightning::ln::msgs::{self, DecodeError, Init, LightningError};
use lightning::ln::peer_handler::{
	CustomMessageHandler, ErroringMessageHandler, IgnoringMessageHandler, MessageHandler, PeerManager,
	SocketDescriptor,
};
use lightning::ln::verif_hooks::noise::Enc;
use lightning::ln::wire::{CustomMessageReader, Type};
use lightning::types::features::{InitFeatures, NodeFeatures};
use lightning::util::ser::{LengthLimitedRead, Writeable, Writer};
use lightning::util::test_utils::TestNodeSigner;
use std::collections::VecDeque;
use std::panic::AssertUnwindSafe;
use std::sync::{Arc, Mutex};

type Secp = Secp256k1<bitcoin::secp256k1::All>;

/// keeps the error-level log lines (enqueue_message logs "Failed to encrypt a message of type .., dropping
/// it!" when the encryptor refuses a message in a build without debug assertions)
struct CapLogger { lines: Mutex<Vec<String>> }
impl CapLogger { fn new() -> Self { CapLogger { lines: Mutex::new(vec![]) } } fn take(&self) -> Vec<String> { std::mem::take(&mut *self.lines.lock().unwrap()) } }
impl lightning::util::logger::Logger for CapLogger {
	fn log(&self, r: lightning::util::logger::Record) {
		if r.level >= lightning::util::logger::Level::Error { let mut l = self.lines.lock().unwrap(); if l.len() < 20 { l.push(format!("{}", r.args)); } }
	}
}
/// A panic inside the PeerManager while it handles what a peer sent / what it has to send.
fn report_panic(rec: &mut Rec, p: &str, ctx: &str, seq: &str) {
	let what = if p.contains("longer than 65535") { "node tried to send a message longer than LN_MAX_MSG_LEN: " } else { "" };
	rec.oracle_fail(format!("{}PeerManager panicked while processing a peer's message: {} ; {} ; message sequence: {}", what, p, ctx, seq));
}
/// error-level log lines of a node: the release-build face of the same failure
fn check_log(rec: &mut Rec, log: &CapLogger, ctx: &str, seq: &str) {
	for l in log.take() {
		if l.contains("Failed to encrypt") { rec.oracle_fail(format!("node tried to send a message longer than LN_MAX_MSG_LEN ({}): a message was silently dropped (sent by the handler, never delivered, no disconnect) ; {} ; message sequence: {}", l, ctx, seq)); }
	}
}

fn sk(b: [u8; 32]) -> SecretKey { SecretKey::from_slice(&b).unwrap() }
fn rand_sk(rng: &mut Rng) -> SecretKey { loop { if let Ok(k) = SecretKey::from_slice(&rng.bytes32()) { return k; } } }
fn pk(secp: &Secp, s: &SecretKey) -> PublicKey { PublicKey::from_secret_key(secp, s) }
/// ECDH as LDK computes it (SHA256 of the compressed shared point); "-" when the 33 bytes are not a key
fn ss_hex(their_pub33: &[u8], our: &SecretKey) -> String {
	match PublicKey::from_slice(their_pub33) { Ok(p) => hex(&SharedSecret::new(&p, our).secret_bytes()), Err(_) => "-".into() }
}
fn outcome<T, F: FnOnce() -> Result<T, ()>>(f: F) -> Result<Result<T, ()>, String> { guarded(AssertUnwindSafe(f)) }

// ------------------------------------------------------------------------------------------------
// c15cipher
// ------------------------------------------------------------------------------------------------

struct Party { stat: SecretKey, eph: SecretKey }
static RARE_BIG: std::sync::atomic::AtomicBool = std::sync::atomic::AtomicBool::new(false);

fn msg_size(rng: &mut Rng, rare_big: bool) -> usize {
	// the thorough tier runs 10^5 messages: large ones are drawn 10x less often there (file sizes)
	match rng.below(if rare_big { 4000 } else { 400 }) {
		0 | 1 => 65535, 2 | 3 => 65534, 4 | 5 => rng.range(9000, 65535) as usize,
		6..=15 => 0, 16..=25 => 1, 26..=35 => 2, 36..=50 => rng.range(1000, 9000) as usize,
		51..=60 => rng.range(60, 70) as usize,
		_ => rng.range(0, 300) as usize,
	}
}

fn cipher_session(rec: &mut Rec, rng: &mut Rng, secp: &Secp, ini: &Party, res: &Party, n_ab: usize, n_ba: usize, act_offsets: &[usize], tamper: bool) {
	let ini_signer = TestNodeSigner::new(ini.stat);
	let res_signer = TestNodeSigner::new(res.stat);
	let (ini_pub, res_pub) = (pk(secp, &ini.stat), pk(secp, &res.stat));
	let (ie_pub, re_pub) = (pk(secp, &ini.eph), pk(secp, &res.eph));
	let h33 = |p: &PublicKey| hex(&p.serialize());

	// ---- act one
	let mut a = Enc::new_outbound(res_pub, ini.eph);
	let act1 = a.get_act_one(secp);
	rec.case(&format!("act1 {} {} {}", h33(&res_pub), h33(&ie_pub), ss_hex(&res_pub.serialize(), &ini.eph)), &hex(&act1), "act1", true);

	// ---- act one processed by the responder: every corrupted variant first, then the genuine one
	let pact1_op = |act: &[u8]| format!("pact1 {} {} {} {} {}", h33(&res_pub), hex(act), ss_hex(&act[1..34], &res.stat), h33(&re_pub), ss_hex(&act[1..34], &res.eph));
	for &off in act_offsets.iter().filter(|o| **o < 50) {
		let mut bad = act1; bad[off] ^= 1 << rng.below(8);
		let mut b = Enc::new_inbound(&&res_signer);
		let r = outcome(|| b.process_act_one_with_keys(&bad, &&res_signer, res.eph, secp));
		let ans = match &r { Ok(Ok(a2)) => hex(a2), Ok(Err(())) => "err".into(), Err(p) => format!("panic {}", p) };
		if ans != "err" { rec.oracle_fail(format!("corrupted act one accepted/panicked: offset {} act {} -> {}", off, hex(&bad), ans)); }
		rec.case(&pact1_op(&bad), &ans, "pact1:corrupt", true);
	}
	let mut b = Enc::new_inbound(&&res_signer);
	let act2 = match b.process_act_one_with_keys(&act1, &&res_signer, res.eph, secp) { Ok(x) => x, Err(()) => { rec.oracle_fail("genuine act one rejected".into()); return; } };
	rec.case(&pact1_op(&act1), &hex(&act2), "pact1:ok", true);

	// ---- act two processed by the initiator
	let pact2_op = |act: &[u8]| format!("pact2 {} {} {} {}", hex(act), h33(&ini_pub), ss_hex(&act[1..34], &ini.eph), ss_hex(&act[1..34], &ini.stat));
	for &off in act_offsets.iter().filter(|o| **o < 50) {
		let mut bad = act2; bad[off] ^= 1 << rng.below(8);
		let mut a2 = Enc::new_outbound(res_pub, ini.eph);
		let _ = a2.get_act_one(secp);
		let r = outcome(|| a2.process_act_two(&bad, &&ini_signer).map(|x| x.0));
		let ans = match &r { Ok(Ok(a3)) => hex(a3), Ok(Err(())) => "err".into(), Err(p) => format!("panic {}", p) };
		if ans != "err" { rec.oracle_fail(format!("corrupted act two accepted/panicked: offset {} -> {}", off, ans)); }
		rec.case(&pact2_op(&bad), &ans, "pact2:corrupt", true);
	}
	let (act3, their) = match a.process_act_two(&act2, &&ini_signer) { Ok(x) => x, Err(()) => { rec.oracle_fail("genuine act two rejected".into()); return; } };
	if their != res_pub { rec.oracle_fail("initiator learnt a wrong responder id".into()); }
	rec.case(&pact2_op(&act2), &hex(&act3), "pact2:ok", true);

	// ---- act three processed by the responder
	let pact3_op = |act: &[u8]| format!("pact3 {} {}", hex(act), ss_hex(&ini_pub.serialize(), &res.eph));
	for &off in act_offsets.iter().filter(|o| **o < 66) {
		let mut bad = act3; bad[off] ^= 1 << rng.below(8);
		let mut b2 = Enc::new_inbound(&&res_signer);
		let _ = b2.process_act_one_with_keys(&act1, &&res_signer, res.eph, secp);
		let r = outcome(|| b2.process_act_three(&bad));
		let ans = match &r { Ok(Ok(id)) => hex(&id.serialize()), Ok(Err(())) => "err".into(), Err(p) => format!("panic {}", p) };
		if ans != "err" { rec.oracle_fail(format!("corrupted act three accepted/panicked: offset {} -> {}", off, ans)); }
		rec.case(&pact3_op(&bad), &ans, "pact3:corrupt", true);
	}
	let id = match b.process_act_three(&act3) { Ok(x) => x, Err(()) => { rec.oracle_fail("genuine act three rejected".into()); return; } };
	if id != ini_pub { rec.oracle_fail("responder learnt a wrong initiator id".into()); }
	rec.case(&pact3_op(&act3), &hex(&id.serialize()), "pact3:ok", true);
	if !(a.is_ready_for_encryption() && b.is_ready_for_encryption()) { rec.oracle_fail("handshake finished but not ready for encryption".into()); }

	// ---- transport, both directions interleaved
	let (mut left_ab, mut left_ba) = (n_ab, n_ba);
	let mut old_frames: Vec<Vec<u8>> = vec![];
	let mut sent = 0usize;
	while left_ab + left_ba > 0 {
		let ab = if left_ba == 0 { true } else if left_ab == 0 { false } else { rng.chance(left_ab as u64, (left_ab + left_ba) as u64) };
		let (snd, rcv, s, r) = if ab { left_ab -= 1; (&mut a, &mut b, "A", "B") } else { left_ba -= 1; (&mut b, &mut a, "B", "A") };
		let sz = msg_size(rng, RARE_BIG.load(std::sync::atomic::Ordering::Relaxed)); let m = rng.bytes(sz);
		let frame = match outcome(|| snd.encrypt_buffer(&m)) { Ok(Ok(f)) => f, other => { rec.oracle_fail(format!("encrypt_buffer refused a {}-byte message (<= LN_MAX_MSG_LEN): {}", m.len(), match other { Err(p) => format!("panic {}", p), _ => "Err".into() })); return; } };
		if frame.len() != m.len() + 34 { rec.oracle_fail(format!("frame length {} for message of {}", frame.len(), m.len())); }
		let class = if m.len() > 60000 { "enc:max" } else if m.len() < 2 { "enc:tiny" } else { "enc" };
		rec.case(&format!("enc {} {}", s, hex(&m)), &hex(&frame), class, true);
		sent += 1;
		// tampering attempts against the receiver before the genuine frame (a failed decrypt leaves
		// the receiver usable: the counter is only advanced on success)
		if tamper && ab && rng.chance(1, 40) {
			for _ in 0..6 {
				let mut h = frame[..18].to_vec(); h[rng.below(18) as usize] ^= 1 << rng.below(8);
				let ans = match outcome(|| rcv.decrypt_length_header(&h)) { Ok(Ok(l)) => l.to_string(), Ok(Err(())) => "err".into(), Err(p) => format!("panic {}", p) };
				if ans != "err" { rec.oracle_fail(format!("corrupted length header accepted: {}", ans)); }
				rec.case(&format!("dech {} {}", r, hex(&h)), &ans, "dech:corrupt", true);
			}
			if let Some(old) = old_frames.last() {
				let ans = match outcome(|| rcv.decrypt_length_header(&old[..18])) { Ok(Ok(l)) => l.to_string(), Ok(Err(())) => "err".into(), Err(p) => format!("panic {}", p) };
				if ans != "err" { rec.oracle_fail(format!("replayed length header accepted: {}", ans)); }
				rec.case(&format!("dech {} {}", r, hex(&old[..18])), &ans, "dech:replay", true);
			}
		}
		let len = match outcome(|| rcv.decrypt_length_header(&frame[..18])) { Ok(Ok(l)) => l as usize, other => { rec.oracle_fail(format!("genuine length header rejected: {:?}", other.map(|x| x.map(|_| ())))); return; } };
		if len != m.len() { rec.oracle_fail(format!("length header {} for message of {}", len, m.len())); }
		rec.case(&format!("dech {} {}", r, hex(&frame[..18])), &len.to_string(), if sent % 500 == 1 { "dech:after-rotation" } else { "dech" }, true);
		if tamper && ab && rng.chance(1, 40) {
			for _ in 0..4 {
				let mut body = frame[18..].to_vec(); let o = rng.below(body.len() as u64) as usize; body[o] ^= 1 << rng.below(8);
				let op = format!("decm {} {}", r, hex(&body));
				let ans = match outcome(|| rcv.decrypt_message(&mut body)) { Ok(Ok(())) => "accepted".into(), Ok(Err(())) => "err".into(), Err(p) => format!("panic {}", p) };
				if ans != "err" { rec.oracle_fail(format!("corrupted body accepted: {}", ans)); }
				rec.case(&op, &ans, "decm:corrupt", true);
			}
			if let Some(old) = old_frames.last() {
				if old.len() == frame.len() {
					let mut body = old[18..].to_vec();
					let op = format!("decm {} {}", r, hex(&body));
					let ans = match outcome(|| rcv.decrypt_message(&mut body)) { Ok(Ok(())) => "accepted".into(), Ok(Err(())) => "err".into(), Err(p) => format!("panic {}", p) };
					if ans != "err" { rec.oracle_fail("replayed body accepted".into()); }
					rec.case(&op, &ans, "decm:replay", true);
				}
			}
		}
		let mut body = frame[18..].to_vec();
		let op = format!("decm {} {}", r, hex(&body));
		match outcome(|| rcv.decrypt_message(&mut body)) {
			Ok(Ok(())) => {
				let pt = &body[..body.len() - 16];
				if pt != &m[..] { rec.oracle_fail(format!("decrypted message differs from the sent one (len {})", m.len())); }
				rec.case(&op, &hex(pt), "decm", true);
			},
			other => { rec.oracle_fail(format!("genuine body rejected: {:?}", other)); return; },
		}
		if ab && m.len() < 400 && (old_frames.len() < 4 || rng.chance(1, 50)) { old_frames.push(frame); }
	}
}

fn run_cipher(args: &Args) {
	let mut rec = Rec::new(&args.out, "c15cipher");
	let mut rng = Rng::new(args.seed);
	let secp = Secp256k1::new();
	let all: Vec<usize> = (0..66).collect();
	RARE_BIG.store(args.thorough, std::sync::atomic::Ordering::Relaxed);
	// session 0: the BOLT-8 appendix A keys, every act offset, > 2500 messages one way (5 rotations)
	let ini = Party { stat: sk([0x11; 32]), eph: sk([0x12; 32]) };
	let res = Party { stat: sk([0x21; 32]), eph: sk([0x22; 32]) };
	let (n0, n0b) = if args.thorough { (60_000, 20_000) } else { (2600, 1100) };
	cipher_session(&mut rec, &mut rng, &secp, &ini, &res, n0 * args.scale as usize, n0b, &all, true);
	let sessions = if args.thorough { 40 } else { 6 };
	for i in 0..sessions {
		let ini = Party { stat: rand_sk(&mut rng), eph: rand_sk(&mut rng) };
		let res = Party { stat: rand_sk(&mut rng), eph: rand_sk(&mut rng) };
		let offs: Vec<usize> = if args.thorough || i == 0 { all.clone() } else { (0..12).map(|_| rng.below(66) as usize).collect() };
		let n = if args.thorough { 500 } else { 120 };
		let extra = rng.below(n as u64) as usize; cipher_session(&mut rec, &mut rng, &secp, &ini, &res, n + extra, n / 2, &offs, true);
	}
	// an over-long message is refused (release: Err(()); debug builds trip the debug_assert)
	{
		let mut a = Enc::new_outbound(pk(&secp, &res.stat), ini.eph);
		let _ = a.get_act_one(&secp);
		let m = vec![7u8; 65536];
		let ans = match outcome(|| a.encrypt_buffer(&m)) { Ok(Ok(f)) => hex(&f[..4]), Ok(Err(())) => "err".into(), Err(p) if p.contains("longer than 65535") => "err".into(), Err(p) => format!("panic {}", p) };
		rec.case(&format!("enc A {}", hex(&m)), &ans, "enc:too-long", true);
	}
	rec.notes.insert("rule".into(), "every op line is distinct by its text (random keys / messages); session 0 uses the BOLT-8 appendix A keys; corrupted acts: one flipped bit at every offset of act one (50), act two (50), act three (66); frames: sizes 0..65535, > 2500 one-way messages in session 0 (rotation every 500 messages); tampered/replayed boxes against the live receiver".into());
	rec.finish();
}

// ------------------------------------------------------------------------------------------------
// c15peer
// ------------------------------------------------------------------------------------------------

#[derive(Debug, Clone, PartialEq)]
struct Raw { ty: u16, data: Vec<u8> }
impl Writeable for Raw { fn write<W: Writer>(&self, w: &mut W) -> Result<(), io::Error> { w.write_all(&self.data) } }
impl Type for Raw { fn type_id(&self) -> u16 { self.ty } }

/// which types the far side's custom reader claims
fn reader_knows(t: u16) -> bool { t >= 32768 && t % 4 < 2 }

struct Handler { received: Mutex<Vec<Raw>>, outq: Mutex<Vec<(PublicKey, Raw)>> }
impl Handler { fn new() -> Self { Handler { received: Mutex::new(vec![]), outq: Mutex::new(vec![]) } } }
impl CustomMessageReader for Handler {
	type CustomMessage = Raw;
	fn read<R: LengthLimitedRead>(&self, ty: u16, buffer: &mut R) -> Result<Option<Raw>, DecodeError> {
		if !reader_knows(ty) { return Ok(None); }
		let mut data = vec![0u8; buffer.remaining_bytes() as usize];
		buffer.read_exact(&mut data).map_err(|_| DecodeError::ShortRead)?;
		Ok(Some(Raw { ty, data }))
	}
}
impl CustomMessageHandler for Handler {
	fn handle_custom_message(&self, msg: Raw, _from: PublicKey) -> Result<(), LightningError> { self.received.lock().unwrap().push(msg); Ok(()) }
	fn get_and_clear_pending_msg(&self) -> Vec<(PublicKey, Raw)> { std::mem::take(&mut *self.outq.lock().unwrap()) }
	fn peer_disconnected(&self, _: PublicKey) {}
	fn peer_connected(&self, _: PublicKey, _: &Init, _: bool) -> Result<(), ()> { Ok(()) }
	fn provided_node_features(&self) -> NodeFeatures { NodeFeatures::empty() }
	fn provided_init_features(&self, _: PublicKey) -> InitFeatures { InitFeatures::empty() }
}

#[derive(Default)]
struct Sock {
	/// bytes written by the owning PeerManager, not yet handed to the other side
	out: VecDeque<u8>,
	/// how many bytes the "kernel buffer" accepts right now (back-pressure)
	budget: usize,
	/// lengths of the buffers the PeerManager wrote (each `send_data` call passes the unwritten rest
	/// of exactly one queued buffer: an act or one encrypted message)
	frames: Vec<usize>,
	cur_remaining: usize,
	refused: bool,
	read_paused: bool,
	disconnected: bool,
	written: usize,
}
#[derive(Clone)]
struct Desc { id: u64, s: Arc<Mutex<Sock>> }
impl Desc { fn new(id: u64) -> Desc { Desc { id, s: Arc::new(Mutex::new(Sock::default())) } } }
impl PartialEq for Desc { fn eq(&self, o: &Desc) -> bool { self.id == o.id } }
impl Eq for Desc {}
impl std::hash::Hash for Desc { fn hash<H: std::hash::Hasher>(&self, h: &mut H) { self.id.hash(h) } }
impl SocketDescriptor for Desc {
	fn send_data(&mut self, data: &[u8], continue_read: bool) -> usize {
		let mut s = self.s.lock().unwrap();
		s.read_paused = !continue_read;
		if data.is_empty() || s.disconnected { return 0; }
		if s.cur_remaining == 0 { s.frames.push(data.len()); s.cur_remaining = data.len(); }
		let n = data.len().min(s.budget);
		s.budget -= n; s.cur_remaining -= n; s.written += n;
		s.out.extend(&data[..n]);
		if n < data.len() { s.refused = true; }
		n
	}
	fn disconnect_socket(&mut self) { self.s.lock().unwrap().disconnected = true; }
}

type PM = PeerManager<Desc, &'static ErroringMessageHandler, &'static IgnoringMessageHandler, &'static IgnoringMessageHandler, &'static CapLogger, &'static Handler, &'static TestNodeSigner, &'static IgnoringMessageHandler>;

struct Node { pm: PM, h: &'static Handler, id: PublicKey, secret: SecretKey, log: &'static CapLogger }
fn leak<T>(x: T) -> &'static T { Box::leak(Box::new(x)) }
fn make_node(secp: &Secp, secret: SecretKey, eph: [u8; 32]) -> Node {
	let h = leak(Handler::new());
	let mh = MessageHandler { chan_handler: leak(ErroringMessageHandler::new()), route_handler: leak(IgnoringMessageHandler {}), onion_message_handler: leak(IgnoringMessageHandler {}), custom_message_handler: h, send_only_message_handler: leak(IgnoringMessageHandler {}) };
	let log = leak(CapLogger::new());
	let pm = PeerManager::new(mh, 0, &eph, log, leak(TestNodeSigner::new(secret)));
	Node { pm, h, id: pk(secp, &secret), secret, log }
}

fn gen_payload(len: usize, seed: u64) -> Vec<u8> { (0..len).map(|i| (seed as usize + i * 31 + i / 256) as u8).collect() }
const DM: u128 = 2305843009213693951;
fn digest_step(h: u128, x: u128) -> u128 { (h * 1000003 + x) % DM }
fn digest_msg(mut h: u128, ty: u16, data: &[u8]) -> u128 {
	h = digest_step(h, 1000 + 2 + data.len() as u128);
	h = digest_step(h, (ty >> 8) as u128 + 1); h = digest_step(h, (ty & 255) as u128 + 1);
	for b in data { h = digest_step(h, *b as u128 + 1); }
	h
}
fn summary(msgs: &[Raw], disc: bool) -> String {
	let mut d = 7u128; for m in msgs { d = digest_msg(d, m.ty, &m.data); }
	format!("n={} d={} {}", msgs.len(), d, if disc { "disc" } else { "open" })
}
fn oracle_case(rec: &mut Rec, op: &str, class: &str) { rec.directive(op); rec.evaluations += 1; *rec.classes.entry(class.to_string()).or_insert(0) += 1; }

fn rand_chunk(rng: &mut Rng, avail: usize) -> usize {
	let n = match rng.below(20) { 0..=3 => rng.range(1, 8), 4..=10 => rng.range(1, 100), 11..=16 => rng.range(1, 5000), 17 | 18 => rng.range(1, 70000), _ => 18 } as usize;
	n.min(avail).max(1)
}
fn rand_budget(rng: &mut Rng) -> usize {
	match rng.below(10) { 0 | 1 => 0, 2 | 3 => rng.range(1, 64) as usize, 4..=6 => rng.range(1, 5000) as usize, 7 | 8 => rng.range(1, 200_000) as usize, _ => usize::MAX / 2 }
}

#[derive(Clone, Copy, PartialEq)]
enum Plan { Clean, Corrupt, Truncate }

/// `num_pong_bytes` values at the edge of what a pong can carry (2 type + 2 length + N ≤ 65535)
const BOUNDARY_PONGLENS: [u16; 7] = [0, 1, 65530, 65531, 65532, 65533, 65535];
/// largest `byteslen` of a ping that still fits a frame: 2 type + 2 ponglen + 2 byteslen + N ≤ 65535
const MAX_PING_BYTESLEN: u16 = 65529;
/// BOLT 1: a ping is answered iff num_pong_bytes < 65532 (stated here independently of the Lean model)
fn bolt1_pong_for(ponglen: u16) -> Option<usize> { if ponglen < 65532 { Some(ponglen as usize) } else { None } }
fn ping_body(ponglen: u16, byteslen: u16) -> Vec<u8> { let mut v = ponglen.to_be_bytes().to_vec(); v.extend(byteslen.to_be_bytes()); v.extend(vec![0u8; byteslen as usize]); v }

/// One message a custom handler queues: an application message, or a `ping` (type 18, written through
/// the custom-message path) whose two numbers the sending peer chooses.
#[derive(Clone, Debug)]
enum PMsg { Custom { ty: u16, len: usize, seed: u64 }, Ping { ponglen: u16, byteslen: u16 } }
impl PMsg {
	fn raw(&self) -> Raw { match self { PMsg::Custom { ty, len, seed } => Raw { ty: *ty, data: gen_payload(*len, *seed) }, PMsg::Ping { ponglen, byteslen } => Raw { ty: 18, data: ping_body(*ponglen, *byteslen) } } }
	fn plain_len(&self) -> usize { 2 + match self { PMsg::Custom { len, .. } => *len, PMsg::Ping { byteslen, .. } => 4 + *byteslen as usize } }
	fn directive(&self) -> String { match self { PMsg::Custom { ty, len, seed } => format!("f msg {} {} {}", ty, len, seed), PMsg::Ping { ponglen, byteslen } => format!("f ping {} {}", ponglen, byteslen) } }
	fn desc(&self) -> String { match self { PMsg::Custom { ty, len, .. } => format!("{}:{}", ty, len + 2), PMsg::Ping { ponglen, byteslen } => format!("ping(ponglen={},byteslen={})", ponglen, byteslen) } }
}
fn seq_desc(msgs: &[PMsg]) -> String {
	if msgs.len() <= 40 { return msgs.iter().map(|m| m.desc()).collect::<Vec<_>>().join(","); }
	let pings: Vec<String> = msgs.iter().enumerate().filter(|(_, m)| matches!(m, PMsg::Ping { .. })).take(40).map(|(i, m)| format!("#{} {}", i, m.desc())).collect();
	format!("{} messages, first {} … pings [{}]", msgs.len(), msgs.iter().take(8).map(|m| m.desc()).collect::<Vec<_>>().join(","), pings.join(","))
}
fn rand_ping(rng: &mut Rng, allow_max_bytes: bool) -> PMsg {
	let mut ponglen = match rng.below(10) { 0..=3 => *rng.pick(&BOUNDARY_PONGLENS), 4 | 5 => rng.range(65520, 65535) as u16, 6 => rng.below(65536) as u16, _ => rng.below(300) as u16 };
	if ponglen == 66 { ponglen = 67; } // a 70-byte pong frame would look like the node's own 70-byte ping
	let mut byteslen = match rng.below(12) { 0 if allow_max_bytes => MAX_PING_BYTESLEN, 0 | 1 => 0, 2 => 1, 3 => rng.range(1000, 9000) as u16, _ => rng.below(200) as u16 };
	if byteslen == 64 { byteslen = 65; } // … and a 70-byte ping like its own ping
	PMsg::Ping { ponglen, byteslen }
}
fn lens(v: &[usize]) -> String { if v.is_empty() { "-".into() } else { v.iter().map(|c| c.to_string()).collect::<Vec<_>>().join(",") } }
/// "pong of N bytes expected for ping ponglen N, got …": compares the replies the receiving node wrote
/// (plaintext lengths, its own 70-byte pings removed) with what BOLT 1 asks for; `exact` = the
/// connection stayed open, so every reply must have been written, otherwise a prefix
fn check_replies(rec: &mut Rec, got: &[usize], want: &[(usize, String)], exact: bool, ctx: &str, seq: &str) {
	for (k, (w, why)) in want.iter().enumerate() {
		match got.get(k) {
			Some(g) if g == w => {},
			Some(g) => { rec.oracle_fail(format!("pong of {} bytes expected for {}, got a {}-byte message (reply #{}) ; {} ; message sequence: {}", w - 4, why, g, k, ctx, seq)); return; },
			None => { if exact { rec.oracle_fail(format!("pong of {} bytes expected for {}, got nothing: a message was silently dropped (sent by the handler, never delivered, no disconnect) ; {} ; message sequence: {}", w - 4, why, ctx, seq)); } return; },
		}
	}
	if got.len() > want.len() { rec.oracle_fail(format!("unexpected {}-byte reply #{} (every ping answered was already accounted for) ; {} ; message sequence: {}", got[want.len()], want.len(), ctx, seq)); }
}

/// Two PeerManagers; `sender_is_initiator` picks which side queues the messages (application messages
/// and `n_pings` pings with peer-chosen `ponglen` / `byteslen`); the other side's replies (pongs) travel
/// back over the same fragmenting / back-pressuring sockets.
fn pm_pair_scenario(rec: &mut Rec, rng: &mut Rng, secp: &Secp, n_msgs: usize, big: usize, sender_is_initiator: bool, plan: Plan, with_unknown: bool, n_pings: usize) {
	let a = make_node(secp, rand_sk(rng), rng.bytes32());
	let b = make_node(secp, rand_sk(rng), rng.bytes32());
	let (mut da, mut db) = (Desc::new(1), Desc::new(2));
	let act1 = match a.pm.new_outbound_connection(b.id, da.clone(), None) { Ok(x) => x, Err(_) => { rec.oracle_fail("new_outbound_connection failed".into()); return; } };
	{ let mut s = da.s.lock().unwrap(); s.frames.push(act1.len()); s.out.extend(&act1); s.written += act1.len(); }
	if b.pm.new_inbound_connection(db.clone(), None).is_err() { rec.oracle_fail("new_inbound_connection failed".into()); return; }
	let (snd, rcv) = if sender_is_initiator { (&a, &b) } else { (&b, &a) };
	let hs_len = if sender_is_initiator { 116 } else { 50 };

	// the messages
	let mut msgs: Vec<PMsg> = vec![];
	for i in 0..n_msgs {
		let mut len = if i < big { [65533usize, 65532, 65000, 40000][i % 4] } else { match rng.below(12) { 0 => 0, 1 => 1, 2 => rng.range(300, 3000) as usize, _ => rng.range(0, 200) as usize } };
		if len == 68 || len == 2 { len += 1; } // plaintext 70 / 4 are the sizes of LDK's own ping / pong
		let ty = if with_unknown && rng.chance(1, 6) { 20001 + 2 * rng.below(3000) as u16 } // unknown odd, not a BOLT type
			else if with_unknown && rng.chance(1, 8) { 32768 + 4 * rng.below(100) as u16 + 3 } // custom-range, unknown to the reader, odd
			else { 32768 + 4 * rng.below(8000) as u16 + rng.below(2) as u16 };
		msgs.push(PMsg::Custom { ty, len, seed: rng.below(256) });
	}
	for k in 0..n_pings {
		let m = if k < BOUNDARY_PONGLENS.len() && n_pings >= BOUNDARY_PONGLENS.len() {
			PMsg::Ping { ponglen: BOUNDARY_PONGLENS[k], byteslen: if k == 3 && big > 0 { MAX_PING_BYTESLEN } else { [0u16, 1, 7, 300][k % 4] } }
		} else { rand_ping(rng, big > 0 && k == 8) };
		let at = rng.below(msgs.len() as u64 + 1) as usize; msgs.insert(at, m);
	}
	let seq = seq_desc(&msgs);
	let ctx = format!("two PeerManagers, {} messages incl. {} pings, sender is the {}, plan {}", msgs.len(), n_pings, if sender_is_initiator { "initiator" } else { "responder" }, match plan { Plan::Clean => "clean", Plan::Corrupt => "one corrupted byte", Plan::Truncate => "truncated" });
	let mut queued = false;
	let mut fed = 0usize; // bytes of the sender's stream handed to the receiver
	let mut chunks: Vec<usize> = vec![];
	let mut disc = false;
	let mut corrupt: Option<(usize, u8)> = None;
	let total_cipher: usize = msgs.iter().map(|m| m.plain_len() + 34).sum();
	let corrupt_at = if plan == Plan::Corrupt { Some(hs_len + rng.below((total_cipher + 60) as u64) as usize) } else { None };
	let truncate_at = if plan == Plan::Truncate { Some(hs_len + rng.below((total_cipher + 60) as u64) as usize) } else { None };
	let mut idle = 0;
	let mut steps = 0u64;
	let r = guarded(AssertUnwindSafe(|| {
		loop {
			steps += 1;
			a.pm.process_events(); b.pm.process_events();
			if !queued && !a.pm.list_peers().is_empty() && !b.pm.list_peers().is_empty() {
				let mut q = snd.h.outq.lock().unwrap();
				for m in msgs.iter() { q.push((rcv.id, m.raw())); }
				queued = true;
				drop(q);
				snd.pm.process_events();
			}
			let drain = idle > 40 || steps > 400_000;
			let mut progress = false;
			for dir in 0..2 {
				let a_to_b = (dir == 0) ^ rng.chance(1, 2);
				let (wd, rd, rpm, wpm) = if a_to_b { (&mut da, &mut db, &b.pm, &a.pm) } else { (&mut db, &mut da, &a.pm, &b.pm) };
				let from_sender = a_to_b == sender_is_initiator;
				// writer side: give the socket some room and tell the PeerManager when it had been refused
				let was_refused = { let mut s = wd.s.lock().unwrap(); s.budget = if drain { usize::MAX / 2 } else { rand_budget(rng) }; let r = s.refused; if s.budget > 0 { s.refused = false; } r && s.budget > 0 };
				let before = wd.s.lock().unwrap().written;
				if was_refused || rng.chance(1, 4) { let _ = wpm.write_buffer_space_avail(wd); }
				if wd.s.lock().unwrap().written != before { progress = true; }
				// reader side
				let paused = rd.s.lock().unwrap().read_paused;
				let avail = wd.s.lock().unwrap().out.len();
				if avail == 0 || (paused && !drain && rng.chance(3, 4)) || (!drain && rng.chance(1, 5)) { continue; }
				let mut n = if drain { avail } else { rand_chunk(rng, avail) };
				if from_sender { if let Some(t) = truncate_at { if fed >= t { continue; } n = n.min(t - fed); } }
				let mut chunk: Vec<u8> = wd.s.lock().unwrap().out.drain(..n).collect();
				if from_sender {
					if let Some(c) = corrupt_at { if c >= fed && c < fed + n { let x = 1u8 << rng.below(8); chunk[c - fed] ^= x; corrupt = Some((c - hs_len, x)); } }
					let post = (fed + n).saturating_sub(fed.max(hs_len));
					if post > 0 { chunks.push(post); }
					fed += n;
				}
				progress = true;
				if rpm.read_event(rd, &chunk).is_err() {
					disc = true;
					wpm.socket_disconnected(wd);
					return;
				}
			}
			if da.s.lock().unwrap().disconnected || db.s.lock().unwrap().disconnected { disc = true; return; }
			if progress { idle = 0; } else { idle += 1; }
			if idle > 80 { return; }
		}
	}));
	if let Err(p) = r { report_panic(rec, &p, &ctx, &seq); return; }
	check_log(rec, a.log, &ctx, &seq); check_log(rec, b.log, &ctx, &seq);
	if !queued && plan == Plan::Clean { rec.oracle_fail("handshake between two PeerManagers did not complete".into()); return; }

	// ---- describe the sender's stream to the model: frames as the PeerManager wrote them
	#[derive(Clone, Copy, PartialEq)]
	enum FK { Init, Msg(usize), OwnPing, OwnPong }
	let (sd, rd) = if sender_is_initiator { (&da, &db) } else { (&db, &da) };
	let frames = sd.s.lock().unwrap().frames.clone();
	let n_hs = if sender_is_initiator { 2 } else { 1 };
	rec.directive("pconn");
	let mut next = 0usize;
	let mut kinds: Vec<FK> = vec![]; // one per post-handshake frame
	let mut frame_of_msg: Vec<usize> = vec![]; // index (among post-handshake frames) of each queued message
	let mut offs = 0usize; let mut frame_start: Vec<usize> = vec![];
	for (i, fl) in frames.iter().enumerate().skip(n_hs) {
		let pl = fl - 34;
		frame_start.push(offs); offs += fl;
		if i == n_hs { rec.directive(&format!("f init {}", pl)); kinds.push(FK::Init); continue; }
		if next < msgs.len() && msgs[next].plain_len() == pl { rec.directive(&msgs[next].directive()); frame_of_msg.push(i - n_hs); kinds.push(FK::Msg(next)); next += 1; }
		else if pl == 70 { rec.directive("f ping 0 64"); kinds.push(FK::OwnPing); }
		else if pl == 4 { rec.directive("f pong 0"); kinds.push(FK::OwnPong); }
		else { rec.oracle_fail(format!("unidentified frame of {} bytes in the sender's stream ; {} ; message sequence: {}", fl, ctx, seq)); return; }
	}
	let got = rcv.h.received.lock().unwrap().clone();
	let impl_ans = summary(&got, disc);
	let (coff, cx) = match corrupt { Some((o, x)) => (o.to_string(), x), None => ("-".to_string(), 0) };
	let class = match (plan, corrupt.is_some(), with_unknown, n_pings > 0) { (Plan::Truncate, _, _, _) => "run:truncated", (_, true, _, _) => "run:corrupted", (_, false, _, true) => "run:with-pings", (_, false, true, _) => "run:unknown-odd", _ => "run:clean" };
	rec.case(&format!("run {} {} {}", coff, cx, lens(&chunks)), &impl_ans, class, true);
	// the replies the receiving node wrote (its frames after the handshake and its Init; its own 70-byte pings are not replies)
	let rframes = rd.s.lock().unwrap().frames.clone();
	let r_hs = if sender_is_initiator { 1 } else { 2 };
	let got_replies: Vec<usize> = rframes.iter().skip(r_hs + 1).map(|f| f - 34).filter(|pl| *pl != 70).collect();
	if !disc { rec.case("replies", &lens(&got_replies), if got_replies.iter().any(|l| *l > 60000) { "replies:max-size-pong" } else if got_replies.is_empty() { "replies:none" } else { "replies" }, true); }

	// ---- implementation-side oracle (no model): exact prefix, disconnect exactly when corrupted
	let delivered_bytes = fed.saturating_sub(hs_len);
	let limit_frame = match corrupt { Some((o, _)) => frame_start.iter().rposition(|s| *s <= o).unwrap_or(0), None => usize::MAX };
	let processed = |fi: usize| fi < limit_frame && frame_start[fi] + frames[fi + n_hs] <= delivered_bytes;
	let mut expect: Vec<Raw> = vec![];
	for (k, m) in msgs.iter().enumerate() {
		if k >= frame_of_msg.len() { break; }
		if !processed(frame_of_msg[k]) { break; }
		if let PMsg::Custom { ty, .. } = m { if reader_knows(*ty) { expect.push(m.raw()); } }
	}
	let corrupted_frame_complete = match corrupt { Some(_) => limit_frame < frame_start.len() && frame_start[limit_frame] + 18 <= delivered_bytes, None => false };
	if got != expect {
		let first = got.iter().zip(expect.iter()).position(|(x, y)| x != y).unwrap_or(got.len().min(expect.len()));
		rec.oracle_fail(format!("delivered sequence differs from the sent one: got {} expected {} first difference at {} (plan corrupt={:?} trunc={:?}) ; {} ; message sequence: {}", got.len(), expect.len(), first, corrupt, truncate_at, ctx, seq));
	}
	if corrupt.is_some() && corrupted_frame_complete && !disc { rec.oracle_fail(format!("corrupted byte at stream offset {:?} did not drop the connection", corrupt)); }
	if corrupt.is_none() && disc { rec.oracle_fail(format!("connection dropped without any corruption ; {} ; message sequence: {}", ctx, seq)); }
	if plan == Plan::Clean && !disc && frame_of_msg.len() != msgs.len() {
		rec.oracle_fail(format!("a message was silently dropped (sent by the handler, never delivered, no disconnect): message #{} {} was never written to the socket ; {} ; message sequence: {}", frame_of_msg.len(), msgs[frame_of_msg.len()].desc(), ctx, seq));
	}
	// pongs: one of exactly `ponglen` bytes per processed ping with ponglen < 65532 (the sender's own pings ask for 0)
	let mut want: Vec<(usize, String)> = vec![];
	for (fi, k) in kinds.iter().enumerate() {
		if !processed(fi) { break; }
		match k {
			FK::Msg(j) => if let PMsg::Ping { ponglen, .. } = &msgs[*j] { if let Some(n) = bolt1_pong_for(*ponglen) { want.push((4 + n, format!("ping ponglen {} (message #{})", ponglen, j))); } },
			FK::OwnPing => want.push((4, "the sender's own ping ponglen 0".into())),
			_ => {},
		}
	}
	check_replies(rec, &got_replies, &want, !disc, &ctx, &seq);
}

/// The harness itself is the peer (speaking through `Enc`) of one real PeerManager.
struct EncPeer { enc: Enc, node: Node, d: Desc, their_init: Vec<u8> }

fn enc_connect(rng: &mut Rng, secp: &Secp, harness_initiates: bool) -> Result<EncPeer, String> {
	let node = make_node(secp, rand_sk(rng), rng.bytes32());
	let my = rand_sk(rng);
	let signer = TestNodeSigner::new(my);
	let mut d = Desc::new(7);
	d.s.lock().unwrap().budget = usize::MAX / 2;
	let take = |d: &Desc, n: usize| -> Vec<u8> { d.s.lock().unwrap().out.drain(..n).collect() };
	let mut enc;
	if harness_initiates {
		enc = Enc::new_outbound(node.id, rand_sk(rng));
		let act1 = enc.get_act_one(secp);
		node.pm.new_inbound_connection(d.clone(), None).map_err(|_| "inbound")?;
		node.pm.read_event(&mut d, &act1).map_err(|_| "act1 rejected")?;
		node.pm.process_events();
		let act2 = take(&d, 50);
		let (act3, _) = enc.process_act_two(&act2, &&signer).map_err(|_| "act2 rejected")?;
		node.pm.read_event(&mut d, &act3).map_err(|_| "act3 rejected")?;
	} else {
		enc = Enc::new_inbound(&&signer);
		let act1 = node.pm.new_outbound_connection(pk(secp, &my), d.clone(), None).map_err(|_| "outbound")?;
		let act2 = enc.process_act_one_with_keys(&act1, &&signer, rand_sk(rng), secp).map_err(|_| "act1 rejected")?;
		node.pm.read_event(&mut d, &act2).map_err(|_| "act2 rejected")?;
		node.pm.process_events();
		let act3 = take(&d, 66);
		enc.process_act_three(&act3).map_err(|_| "act3 rejected")?;
	}
	node.pm.process_events();
	// the node's Init: decrypt it and echo it back later (identical features are compatible)
	let hdr = take(&d, 18);
	let len = enc.decrypt_length_header(&hdr).map_err(|_| "init header")? as usize;
	let mut body = take(&d, len + 16);
	enc.decrypt_message(&mut body).map_err(|_| "init body")?;
	body.truncate(len);
	if body.len() < 2 || body[0] != 0 || body[1] != 16 { return Err("first message of the node is not Init".into()); }
	Ok(EncPeer { enc, node, d, their_init: body })
}

/// `plain`: the plaintext messages the harness sends; `corrupt`: (frame index, offset in frame)
fn enc_scenario(rec: &mut Rec, rng: &mut Rng, secp: &Secp, plain: Vec<Vec<u8>>, corrupt: Option<(usize, usize)>, class: &str, harness_initiates: bool) {
	let mut p = match enc_connect(rng, secp, harness_initiates) { Ok(p) => p, Err(e) => { rec.oracle_fail(format!("handshake with a real PeerManager failed: {}", e)); return; } };
	rec.directive("pconn");
	let mut stream: Vec<u8> = vec![];
	let mut starts = vec![];
	for m in plain.iter() {
		let m: &Vec<u8> = if m.len() == 1 && m[0] == 0xfe { &p.their_init } else { m }; // placeholder = echo their Init
		starts.push(stream.len());
		stream.extend(p.enc.encrypt_buffer(m).unwrap());
		rec.directive(&format!("f raw {}", hex(m)));
	}
	let mut cspec = ("-".to_string(), 0u8);
	if let Some((fi, off)) = corrupt { let o = starts[fi] + off; let x = 1u8 << rng.below(8); stream[o] ^= x; cspec = (o.to_string(), x); }
	let mut chunks = vec![]; let mut pos = 0; let mut disc = false;
	let r = guarded(AssertUnwindSafe(|| {
		while pos < stream.len() {
			let n = rand_chunk(rng, stream.len() - pos);
			chunks.push(n);
			let res = p.node.pm.read_event(&mut p.d, &stream[pos..pos + n]);
			pos += n;
			if res.is_err() { disc = true; break; }
			p.node.pm.process_events();
			if p.d.s.lock().unwrap().disconnected { disc = true; break; }
			p.d.s.lock().unwrap().budget = usize::MAX / 2;
			p.d.s.lock().unwrap().out.clear();
		}
	}));
	if let Err(e) = r { rec.oracle_fail(format!("PeerManager panicked on a peer's messages ({}): {}", class, e)); return; }
	let got = p.node.h.received.lock().unwrap().clone();
	let sizes = chunks.iter().map(|c| c.to_string()).collect::<Vec<_>>().join(",");
	rec.case(&format!("run {} {} {}", cspec.0, cspec.1, sizes), &summary(&got, disc), class, true);
	// oracle, independent of the model: walk the plaintext list with the BOLT-1 rules
	let mut expect = vec![]; let mut want_disc = false; let mut seen_init = false;
	for (i, m) in plain.iter().enumerate() {
		let m: &Vec<u8> = if m.len() == 1 && m[0] == 0xfe { &p.their_init } else { m };
		if let Some((fi, _)) = corrupt { if fi == i { want_disc = true; break; } }
		if m.len() < 2 { want_disc = true; break; }
		let ty = u16::from_be_bytes([m[0], m[1]]);
		if ty == 16 { if seen_init { want_disc = true; break; } seen_init = true; continue; }
		if !seen_init { want_disc = true; break; }
		if ty == 18 || ty == 19 { continue; }
		if reader_knows(ty) { expect.push(Raw { ty, data: m[2..].to_vec() }); }
		else if ty % 2 == 0 { want_disc = true; break; }
	}
	if got != expect { rec.oracle_fail(format!("{}: handler received {} messages, expected {}", class, got.len(), expect.len())); }
	if want_disc != disc { rec.oracle_fail(format!("{}: connection {} but the rules say {}", class, if disc { "dropped" } else { "kept" }, if want_disc { "drop" } else { "keep" })); }
}

/// one plaintext message the harness (as the peer) sends, with the directive that makes the model build the same bytes
struct EM { plain: Vec<u8>, directive: String, desc: String }
fn em_init() -> EM { EM { plain: vec![0xfe], directive: String::new(), desc: "init".into() } } // placeholder = echo of the node's Init
fn em_ping(ponglen: u16, byteslen: u16) -> EM { let mut plain = vec![0u8, 18]; plain.extend(ping_body(ponglen, byteslen)); EM { plain, directive: format!("f ping {} {}", ponglen, byteslen), desc: format!("ping(ponglen={},byteslen={})", ponglen, byteslen) } }
fn em_pong(byteslen: u16) -> EM { let mut plain = vec![0u8, 19]; plain.extend(byteslen.to_be_bytes()); plain.extend(vec![0u8; byteslen as usize]); EM { plain, directive: format!("f pong {}", byteslen), desc: format!("pong(byteslen={})", byteslen) } }
fn em_custom(ty: u16, len: usize, seed: u64) -> EM { EM { plain: custom(ty, len, seed), directive: format!("f msg {} {} {}", ty, len, seed), desc: format!("{}:{}", ty, len + 2) } }
fn em_raw(plain: Vec<u8>, what: &str) -> EM { EM { directive: format!("f raw {}", hex(&plain)), desc: format!("{}[{}]", what, hex(&plain[..plain.len().min(24)])), plain } }

#[derive(Debug, PartialEq)]
enum Reply { Pong(usize), Warning(String) }
impl Reply {
	fn plain(&self) -> Vec<u8> { match self {
		Reply::Pong(n) => { let mut v = vec![0u8, 19]; v.extend((*n as u16).to_be_bytes()); v.extend(vec![0u8; *n]); v },
		Reply::Warning(t) => { let mut v = vec![0u8, 1]; v.extend([0u8; 32]); v.extend((t.len() as u16).to_be_bytes()); v.extend(t.as_bytes()); v },
	} }
}
fn describe_plain(m: &[u8]) -> String {
	if m.len() >= 4 && m[0] == 0 && m[1] == 19 { format!("a pong with byteslen {} and {} padding bytes", u16::from_be_bytes([m[2], m[3]]), m.len() - 4) }
	else if m.len() >= 36 && m[0] == 0 && m[1] == 1 { format!("a warning \"{}\"", String::from_utf8_lossy(&m[36..])) }
	else { format!("a {}-byte message of type {}", m.len(), if m.len() >= 2 { u16::from_be_bytes([m[0], m[1]]) as i32 } else { -1 }) }
}

/// The harness is the peer (through `Enc`) and chooses message CONTENTS at the size boundaries; the node's
/// answers are read back from its socket (random write budgets = partial writes), decrypted and checked.
fn enc_boundary_scenario(rec: &mut Rec, rng: &mut Rng, secp: &Secp, msgs: Vec<EM>, class: &str, harness_initiates: bool) {
	let mut p = match enc_connect(rng, secp, harness_initiates) { Ok(p) => p, Err(e) => { rec.oracle_fail(format!("handshake with a real PeerManager failed: {}", e)); return; } };
	rec.directive("pconn");
	let plains: Vec<Vec<u8>> = msgs.iter().map(|m| if m.plain.len() == 1 && m.plain[0] == 0xfe { p.their_init.clone() } else { m.plain.clone() }).collect();
	let seq = msgs.iter().map(|m| m.desc.clone()).collect::<Vec<_>>().join(",");
	let ctx = format!("{} (the harness is the peer and {} the connection)", class, if harness_initiates { "initiated" } else { "accepted" });
	let mut stream: Vec<u8> = vec![];
	let mut starts: Vec<usize> = vec![];
	for (m, pl) in msgs.iter().zip(plains.iter()) {
		starts.push(stream.len());
		match outcome(|| p.enc.encrypt_buffer(pl)) { Ok(Ok(f)) => stream.extend(f), other => { rec.oracle_fail(format!("encrypt_buffer refused a {}-byte message (<= LN_MAX_MSG_LEN): {} ; {}", pl.len(), match other { Err(e) => format!("panic {}", e), _ => "Err".into() }, ctx)); return; } }
		if m.directive.is_empty() { rec.directive(&format!("f raw {}", hex(pl))); } else { rec.directive(&m.directive); }
	}
	let mut chunks = vec![]; let mut pos = 0; let mut disc = false;
	let mut node_out: Vec<u8> = vec![];
	p.d.s.lock().unwrap().out.clear();
	let r = guarded(AssertUnwindSafe(|| {
		let pump = |p: &mut EncPeer, node_out: &mut Vec<u8>, budget: usize| {
			let was_refused = { let mut s = p.d.s.lock().unwrap(); s.budget = budget; let r = s.refused; if budget > 0 { s.refused = false; } r && budget > 0 };
			if was_refused { let _ = p.node.pm.write_buffer_space_avail(&mut p.d); }
			p.node.pm.process_events();
			let mut s = p.d.s.lock().unwrap(); let n = s.out.len(); node_out.extend(s.out.drain(..)); n
		};
		while pos < stream.len() {
			let n = rand_chunk(rng, stream.len() - pos);
			chunks.push(n);
			p.d.s.lock().unwrap().budget = rand_budget(rng);
			let res = p.node.pm.read_event(&mut p.d, &stream[pos..pos + n]);
			pos += n;
			if res.is_err() { disc = true; break; }
			let b = rand_budget(rng); pump(&mut p, &mut node_out, b);
			if p.d.s.lock().unwrap().disconnected { disc = true; break; }
		}
		if !disc { let mut quiet = 0; while quiet < 3 { if pump(&mut p, &mut node_out, usize::MAX / 2) == 0 { quiet += 1; } else { quiet = 0; } } }
		else { let mut s = p.d.s.lock().unwrap(); node_out.extend(s.out.drain(..)); }
	}));
	if let Err(e) = r {
		// the chunk being read when it panicked covers these messages
		let (lo, hi) = (pos, pos + chunks.last().copied().unwrap_or(0));
		let during: Vec<String> = (0..msgs.len()).filter(|i| starts[*i] < hi && starts.get(i + 1).copied().unwrap_or(stream.len()) > lo).map(|i| format!("#{} {}", i, msgs[i].desc)).collect();
		report_panic(rec, &e, &format!("{} while {}", ctx, if pos >= stream.len() || during.is_empty() { "the node wrote its replies (everything had been read)".to_string() } else { format!("reading {}", during.join(" ")) }), &seq); return;
	}
	check_log(rec, p.node.log, &ctx, &seq);
	let got = p.node.h.received.lock().unwrap().clone();
	rec.case(&format!("run - 0 {}", lens(&chunks)), &summary(&got, disc), class, true);
	// what the node wrote: decrypt it as the peer would
	let mut replies: Vec<Vec<u8>> = vec![]; let mut o = 0usize;
	while node_out.len() - o >= 18 {
		let len = match p.enc.decrypt_length_header(&node_out[o..o + 18]) { Ok(l) => l as usize, Err(_) => { rec.oracle_fail(format!("the node's output does not decrypt (length header at offset {}) ; {} ; message sequence: {}", o, ctx, seq)); return; } };
		if node_out.len() - o - 18 < len + 16 { break; } // cut off by the disconnect
		let mut body = node_out[o + 18..o + 18 + len + 16].to_vec();
		if p.enc.decrypt_message(&mut body).is_err() { rec.oracle_fail(format!("the node's output does not decrypt (body at offset {}) ; {} ; message sequence: {}", o, ctx, seq)); return; }
		body.truncate(len); o += 18 + len + 16;
		if body.len() == 70 && body[..6] == [0, 18, 0, 0, 0, 64] { continue; } // the node's own ping
		replies.push(body);
	}
	if !disc && o != node_out.len() { rec.oracle_fail(format!("{} stray bytes at the end of the node's output ; {} ; message sequence: {}", node_out.len() - o, ctx, seq)); }
	let got_lens: Vec<usize> = replies.iter().map(|r| r.len()).collect();
	if !disc { rec.case("replies", &lens(&got_lens), if got_lens.iter().any(|l| *l > 60000) { "replies:max-size-pong" } else if got_lens.is_empty() { "replies:none" } else { "replies" }, true); }

	// oracle, independent of the model: walk the plaintext list with the BOLT-1 rules
	let mut expect = vec![]; let mut want: Vec<(Reply, String)> = vec![]; let mut want_disc = false; let mut seen_init = false;
	for (i, m) in plains.iter().enumerate() {
		if m.len() < 2 { want_disc = true; break; }
		let ty = u16::from_be_bytes([m[0], m[1]]); let body = &m[2..];
		if ty == 18 || ty == 19 {
			let hdr = if ty == 18 { 4 } else { 2 };
			if body.len() < hdr { want_disc = true; break; }
			let declared = u16::from_be_bytes([body[hdr - 2], body[hdr - 1]]) as usize;
			if body.len() - hdr < declared { want_disc = true; break; } // does not decode
			if !seen_init { want_disc = true; break; }
			if ty == 18 { let ponglen = u16::from_be_bytes([body[0], body[1]]); if let Some(n) = bolt1_pong_for(ponglen) { want.push((Reply::Pong(n), format!("ping ponglen {} (message #{})", ponglen, i))); } }
			continue;
		}
		if (256..=258).contains(&ty) && body.len() < 64 { want.push((Reply::Warning(format!("Unreadable/bogus gossip message of type {}", ty)), format!("undecodable gossip message #{}", i))); continue; }
		if ty == 16 { if seen_init { want_disc = true; break; } seen_init = true; continue; }
		if !seen_init { want_disc = true; break; }
		if reader_knows(ty) { expect.push(Raw { ty, data: body.to_vec() }); }
		else if ty % 2 == 0 { want_disc = true; break; }
	}
	if got != expect { rec.oracle_fail(format!("{}: handler received {} messages, expected {} ; message sequence: {}", class, got.len(), expect.len(), seq)); }
	if want_disc != disc { rec.oracle_fail(format!("{}: connection {} but the rules say {} ; message sequence: {}", class, if disc { "dropped" } else { "kept" }, if want_disc { "drop" } else { "keep" }, seq)); }
	for (k, (w, why)) in want.iter().enumerate() {
		match replies.get(k) {
			Some(g) if *g == w.plain() => {},
			Some(g) => { rec.oracle_fail(format!("{} expected for {}, got {} (reply #{}) ; {} ; message sequence: {}", match w { Reply::Pong(n) => format!("pong of {} bytes", n), Reply::Warning(t) => format!("warning \"{}\"", t) }, why, describe_plain(g), k, ctx, seq)); return; },
			None => { if !disc { rec.oracle_fail(format!("{} expected for {}, got nothing: a message was silently dropped (sent by the handler, never delivered, no disconnect) ; {} ; message sequence: {}", match w { Reply::Pong(n) => format!("pong of {} bytes", n), Reply::Warning(t) => format!("warning \"{}\"", t) }, why, ctx, seq)); } return; },
		}
	}
	if replies.len() > want.len() { rec.oracle_fail(format!("unexpected reply #{}: {} ; {} ; message sequence: {}", want.len(), describe_plain(&replies[want.len()]), ctx, seq)); }
}

fn custom(ty: u16, len: usize, seed: u64) -> Vec<u8> { let mut v = ty.to_be_bytes().to_vec(); v.extend(gen_payload(len, seed)); v }
fn known_ty(rng: &mut Rng) -> u16 { 32768 + 4 * rng.below(8000) as u16 + rng.below(2) as u16 }

#[path = "c15/gate.rs"]
mod gate;
#[path = "c15/eph.rs"]
mod eph;

fn run_peer(args: &Args) {
	let mut rec = Rec::new(&args.out, "c15peer");
	let mut rng = Rng::new(args.seed ^ 0xc15);
	let secp = Secp256k1::new();
	let echo_init = vec![0xfeu8];

	// (0) the harness as peer chooses message contents at the size boundaries
	let n_bound = if args.thorough { 40 } else { 4 };
	for round in 0..n_bound {
		let hi = round % 2 == 0;
		let k1 = known_ty(&mut rng);
		// every boundary ponglen, byteslen from 0 to the maximum, maximum-size messages in both directions
		let mut seq = vec![em_init()];
		for (k, pl) in BOUNDARY_PONGLENS.iter().enumerate() { seq.push(em_ping(*pl, [0u16, 1, 5, MAX_PING_BYTESLEN, 0, 300, 2][k])); if k == 2 { seq.push(em_custom(k1, 65533, 3)); } }
		seq.push(em_pong(0)); seq.push(em_pong(65531)); seq.push(em_ping(65531, MAX_PING_BYTESLEN)); seq.push(em_custom(k1, 4, 1));
		enc_boundary_scenario(&mut rec, &mut rng, &secp, seq, "size:boundary-pings", hi);
		// more answered pings than BUFFER_DRAIN_MSGS_PER_TICK (the node interleaves its own ping), random values near the edge
		let mut seq = vec![em_init()];
		for _ in 0..(36 + rng.below(10)) { let (pl, bl) = match rand_ping(&mut rng, false) { PMsg::Ping { ponglen, byteslen } => (ponglen, byteslen), _ => (0, 0) }; seq.push(em_ping(if pl > 400 && pl < 65500 { pl % 400 } else { pl }, bl)); if rng.chance(1, 5) { seq.push(em_custom(k1, rng.below(50) as usize, 2)); } }
		enc_boundary_scenario(&mut rec, &mut rng, &secp, seq, "size:many-pings", hi);
		// pings / pongs that do not decode drop the connection; what follows is never processed
		for bad in [vec![0u8, 18], vec![0, 18, 0], vec![0, 18, 0, 0, 0], vec![0, 18, 0, 0, 0, 5, 0, 0, 0, 0], { let mut v = vec![0u8, 18, 0xff, 0xfc, 0xff, 0xff]; v.extend(vec![0u8; 100]); v }, vec![0, 19], vec![0, 19, 0, 3, 0, 0]] {
			enc_boundary_scenario(&mut rec, &mut rng, &secp, vec![em_init(), em_ping(3, 2), em_raw(bad, "undecodable"), em_ping(1, 0), em_custom(k1, 3, 1)], "size:undecodable-ping-pong", hi);
		}
		// trailing bytes after a ping / pong are not looked at
		let mut t1 = em_ping(65531, 2).plain; t1.extend([9u8, 9, 9]); let mut t2 = em_ping(65532, 0).plain; t2.extend([1u8]); let mut t3 = em_pong(1).plain; t3.extend([7u8; 40]);
		enc_boundary_scenario(&mut rec, &mut rng, &secp, vec![em_init(), em_raw(t1, "ping(ponglen=65531,byteslen=2)+3 trailing"), em_raw(t2, "ping(ponglen=65532,byteslen=0)+1 trailing"), em_raw(t3, "pong(1)+40 trailing"), em_custom(k1, 3, 1)], "size:trailing-bytes", hi);
		// gossip messages too short for their signature: a warning (built from the peer-chosen type), before and after Init, peer kept
		let g = |ty: u16, n: usize, rng: &mut Rng| { let mut v = ty.to_be_bytes().to_vec(); v.extend(rng.bytes(n)); em_raw(v, "short-gossip") };
		let seq = vec![g(256, 10, &mut rng), em_init(), g(256, 0, &mut rng), em_ping(2, 0), g(257, 63, &mut rng), g(258, 30, &mut rng), em_custom(k1, 3, 1)];
		enc_boundary_scenario(&mut rec, &mut rng, &secp, seq, "size:undecodable-gossip-warning", hi);
	}

	// (0b) the Init gate: every wire message type as the first post-handshake message / right after Init, recording handlers
	gate::gate_scenarios(&mut rec, &mut rng, &secp, if args.thorough { 12 } else { 2 });

	// (0c) ephemeral keys: a fresh key per connection (differential against Model/EphKey + oracles), replay of a
	// recorded initiator transcript on a fresh inbound connection must be dropped at act three
	eph::eph_scenarios(&mut rec, &mut rng, &secp, if args.thorough { 300 } else { 30 });
	// (0d) disconnect bookkeeping on every disconnect path, ping / handshake timeout, replayed responder transcript (oracles)
	eph::book_scenarios(&mut rec, &mut rng, &secp, if args.thorough { 150 } else { 15 });

	// (1) two PeerManagers: identity delivery under fragmentation / coalescing / back-pressure
	let (n_long, n_runs, n_small) = if args.thorough { (6000, 400, 300) } else { (1300, 60, 120) };
	pm_pair_scenario(&mut rec, &mut rng, &secp, n_long, 6, true, Plan::Clean, false, 0);
	pm_pair_scenario(&mut rec, &mut rng, &secp, n_long - 150, 3, false, Plan::Clean, true, 45);
	for i in 0..n_runs {
		let plan = match i % 3 { 0 => Plan::Clean, 1 => Plan::Corrupt, _ => Plan::Truncate };
		let n = 1 + rng.below(n_small) as usize;
		let (c1, c2) = (rng.chance(1, 2), rng.chance(1, 2));
		// every other run carries pings: all seven boundary values of `ponglen`, or a few random ones
		let n_pings = match i % 4 { 0 | 1 => 0, 2 => 7 + rng.below(4) as usize, _ => 1 + rng.below(5) as usize };
		pm_pair_scenario(&mut rec, &mut rng, &secp, n, (i % 2) as usize, c1, plan, c2, n_pings);
	}
	// pings only, both directions of connection set-up, every boundary value, clean
	for init in [true, false] { pm_pair_scenario(&mut rec, &mut rng, &secp, 3, 1, init, Plan::Clean, false, 12); }

	// (2) the harness as peer: protocol rules
	let n_rules = if args.thorough { 60 } else { 12 };
	for _ in 0..n_rules {
		let hi = rng.chance(1, 2);
		// non-Init first message: custom, ping, unknown odd
		for first in [custom(known_ty(&mut rng), 10, 1), { let mut p = vec![0u8, 18, 0, 0, 0, 4]; p.extend([0u8; 4]); p }, custom(20001, 3, 2)] {
			let k = known_ty(&mut rng); enc_scenario(&mut rec, &mut rng, &secp, vec![first, echo_init.clone(), custom(k, 5, 3)], None, "gate:non-init-first", hi);
		}
		// Init, known, unknown odd (ignored), known, unknown even (drop), known (never seen)
		let k1 = known_ty(&mut rng); let k2 = known_ty(&mut rng);
		let (o1, e1, e2) = (20001 + 2 * rng.below(1000) as u16, 20000 + 2 * rng.below(1000) as u16, 32768 + 2 + 4 * rng.below(1000) as u16);
		enc_scenario(&mut rec, &mut rng, &secp, vec![echo_init.clone(), custom(k1, 20, 4), custom(o1, 8, 5), custom(32768 + 3, 8, 5), custom(k2, 0, 6), custom(e1, 8, 7), custom(k1, 9, 8)], None, "gate:unknown-even-odd", hi);
		enc_scenario(&mut rec, &mut rng, &secp, vec![echo_init.clone(), custom(k1, 20, 4), custom(e2, 8, 7), custom(k1, 9, 8)], None, "gate:unknown-even-custom-range", hi);
		// second Init
		enc_scenario(&mut rec, &mut rng, &secp, vec![echo_init.clone(), custom(k1, 1, 4), echo_init.clone(), custom(k1, 2, 8)], None, "gate:second-init", hi);
		// messages shorter than a type
		for short in [vec![], vec![0x80u8]] {
			enc_scenario(&mut rec, &mut rng, &secp, vec![echo_init.clone(), custom(k1, 1, 4), short, custom(k1, 2, 8)], None, "frame:len<2", hi);
		}
		// corruption at a chosen place of a chosen frame: header, body, tags; replay of an earlier frame is
		// the same as arbitrary bytes at that position (covered by the cipher model with real frames)
		let body_len = rng.range(0, 400) as usize;
		let seq = vec![echo_init.clone(), custom(k1, 7, 1), custom(k2, body_len, 2), custom(k1, 9, 3)];
		let ro = rng.below((36 + body_len) as u64) as usize;
		for off in [0usize, 1, 2, 17, 18, 19, 18 + 2 + body_len, 18 + 2 + body_len + 15, ro] {
			enc_scenario(&mut rec, &mut rng, &secp, seq.clone(), Some((2, off)), "frame:corrupt-at-offset", hi);
		}
		let o = rng.below(30) as usize; enc_scenario(&mut rec, &mut rng, &secp, seq.clone(), Some((0, o)), "frame:corrupt-init", hi);
		// many messages through one Enc → PeerManager, past a rotation
		let mut many: Vec<Vec<u8>> = vec![echo_init.clone()]; for i in 0..520usize { let k = known_ty(&mut rng); many.push(custom(k, (i * 7) % 90, i as u64)); }
		enc_scenario(&mut rec, &mut rng, &secp, many, None, "enc→pm:rotation", hi);
	}

	// (3) garbage instead of a handshake (both directions), no panic, dropped when the act is complete
	let n_garbage = if args.thorough { 4000 } else { 400 };
	for i in 0..n_garbage {
		let node = make_node(&secp, rand_sk(&mut rng), rng.bytes32());
		let mut d = Desc::new(9); d.s.lock().unwrap().budget = usize::MAX / 2;
		let inbound = i % 2 == 0;
		let glen = 50 + rng.below(100) as usize; let mut g = rng.bytes(glen);
		match rng.below(4) { 0 => {}, 1 => { g[0] = 0; }, 2 => { g[0] = 0; g[1] = 2 + (rng.below(2) as u8); }, _ => { g[0] = 0; let p = pk(&secp, &rand_sk(&mut rng)).serialize(); g[1..34].copy_from_slice(&p); } }
		let res = guarded(AssertUnwindSafe(|| {
			if inbound { node.pm.new_inbound_connection(d.clone(), None).unwrap(); } else { let _ = node.pm.new_outbound_connection(pk(&secp, &rand_sk(&mut rng)), d.clone(), None).unwrap(); }
			let mut pos = 0; let mut err_at = None;
			while pos < g.len() { let n = rand_chunk(&mut rng, g.len() - pos).min(60); let r = node.pm.read_event(&mut d, &g[pos..pos + n]); pos += n; if r.is_err() { err_at = Some(pos); break; } node.pm.process_events(); }
			err_at
		}));
		match &res {
			Err(p) => rec.oracle_fail(format!("garbage handshake bytes panicked the PeerManager: {} bytes {}", p, hex(&g))),
			Ok(None) => rec.oracle_fail(format!("garbage handshake accepted: {}", hex(&g[..50]))),
			Ok(Some(at)) => { if *at < 50 { rec.oracle_fail("dropped before the act was complete".into()); } },
		}
		if inbound {
			// the same bytes through the model's act-one processing (the node's static key is known)
			let ans = if matches!(res, Ok(Some(_))) { "err" } else { "accepted" };
			let dummy = pk(&secp, &sk([3; 32]));
			rec.case(&format!("pact1 {} {} {} {} -", hex(&node.id.serialize()), hex(&g[..50]), ss_hex(&g[1..34], &node.secret), hex(&dummy.serialize())), ans, "garbage:act-one", true);
		} else {
			oracle_case(&mut rec, &format!("note garbage-act-two {}", hex(&g[..50])), "garbage:act-two");
		}
	}

	// (4) well-formed but nonsensical messages after a genuine handshake + Init: no panic
	let n_nonsense = if args.thorough { 2000 } else { 150 };
	for _ in 0..n_nonsense {
		let hi = rng.chance(1, 2); let mut p = match enc_connect(&mut rng, &secp, hi) { Ok(p) => p, Err(e) => { rec.oracle_fail(format!("handshake failed: {}", e)); continue; } };
		let mut seq: Vec<Vec<u8>> = vec![p.their_init.clone()];
		for _ in 0..(1 + rng.below(12)) { seq.push(nonsense_msg(&mut rng)); }
		let r = guarded(AssertUnwindSafe(|| {
			for m in seq.iter() {
				let f = p.enc.encrypt_buffer(m).unwrap();
				if p.node.pm.read_event(&mut p.d, &f).is_err() { return; }
				p.node.pm.process_events();
				if rng.chance(1, 6) { p.node.pm.timer_tick_occurred(); }
				p.d.s.lock().unwrap().out.clear();
			}
		}));
		if let Err(e) = r { rec.oracle_fail(format!("well-formed message sequence panicked the node: {} ; messages {:?}", e, seq.iter().map(|m| hex(&m[..m.len().min(40)])).collect::<Vec<_>>())); }
		oracle_case(&mut rec, &format!("note nonsense {}", seq.iter().skip(1).map(|m| format!("{}:{}", u16::from_be_bytes([m[0], m[1]]), m.len())).collect::<Vec<_>>().join(",")), "nonsense");
	}
	nonsense_chanman(&mut rec, &mut rng, &secp, if args.thorough { 1500 } else { 150 });
	init_content_scenarios(&mut rec, &mut rng, &secp, if args.thorough { 40 } else { 4 });
	// (5) reply_channel_range batches for queries covering 0 … more than two full batches of channels
	range_reply_scenario(&mut rec, &mut rng, &secp, if args.thorough { 24_100 } else { 8_300 });
	rec.notes.insert("rule".into(), "every `run` is one whole connection (distinct by its chunk-size list): two real PeerManagers joined by descriptors that fragment, coalesce and refuse writes per PRNG (one > 1000-message run per direction; pings with ponglen 0, 1, 65530, 65531, 65532, 65533, 65535 and byteslen up to 65529 among the messages, the pongs travelling back), or the harness speaking BOLT-8 through the Enc hook to one PeerManager (protocol rules, corruption at chosen offsets, size-boundary pings / pongs / 65535-byte messages under partial reads and writes with the node's answers decrypted); `replies` lines compare the lengths of the messages the node built itself with the model; garbage handshakes and nonsensical BOLT messages are oracle cases (no panic)".into());
	rec.finish();
}


/// BOLT-8 handshake (harness = initiator, through `Enc`) with any PeerManager; returns the cipher
/// state and the node's decrypted Init.
fn enc_handshake_generic<CM: msgs::ChannelMessageHandler, RM: msgs::RoutingMessageHandler, OM: msgs::OnionMessageHandler, L: lightning::util::logger::Logger, CMH: CustomMessageHandler, NS: lightning::sign::NodeSigner, SM: lightning::ln::msgs::SendOnlyMessageHandler>(
	pm: &PeerManager<Desc, CM, RM, OM, L, CMH, NS, SM>, node_id: PublicKey, rng: &mut Rng, secp: &Secp, d: &mut Desc,
) -> Result<(Enc, Vec<u8>), String> {
	let my = rand_sk(rng);
	enc_handshake_with_key(pm, node_id, rng, secp, d, &my)
}
fn enc_handshake_with_key<CM: msgs::ChannelMessageHandler, RM: msgs::RoutingMessageHandler, OM: msgs::OnionMessageHandler, L: lightning::util::logger::Logger, CMH: CustomMessageHandler, NS: lightning::sign::NodeSigner, SM: lightning::ln::msgs::SendOnlyMessageHandler>(
	pm: &PeerManager<Desc, CM, RM, OM, L, CMH, NS, SM>, node_id: PublicKey, rng: &mut Rng, secp: &Secp, d: &mut Desc, my: &SecretKey,
) -> Result<(Enc, Vec<u8>), String> {
	let my = *my;
	let signer = TestNodeSigner::new(my);
	d.s.lock().unwrap().budget = usize::MAX / 2;
	let take = |d: &Desc, n: usize| -> Result<Vec<u8>, String> { let mut s = d.s.lock().unwrap(); if s.out.len() < n { return Err("short write".into()); } Ok(s.out.drain(..n).collect()) };
	let mut enc = Enc::new_outbound(node_id, rand_sk(rng));
	let act1 = enc.get_act_one(secp);
	pm.new_inbound_connection(d.clone(), None).map_err(|_| "inbound")?;
	pm.read_event(d, &act1).map_err(|_| "act1 rejected")?;
	pm.process_events();
	let act2 = take(d, 50)?;
	let (act3, _) = enc.process_act_two(&act2, &&signer).map_err(|_| "act2 rejected")?;
	pm.read_event(d, &act3).map_err(|_| "act3 rejected")?;
	pm.process_events();
	let hdr = take(d, 18)?;
	let len = enc.decrypt_length_header(&hdr).map_err(|_| "init header")? as usize;
	let mut body = take(d, len + 16)?;
	enc.decrypt_message(&mut body).map_err(|_| "init body")?;
	body.truncate(len);
	Ok((enc, body))
}

/// (4c) CONTENT of the Init compatibility checks, against a PeerManager backed by a real ChannelManager (testnet,
/// `get_chain_hashes` = Some): adversarial Inits derived from the node's own Init. Oracle (independent of the Init
/// arm): an Init is refused (read_event Err, peer not listed) iff its `networks` is present and shares no chain with
/// ours, or it sets an unknown EVEN feature bit, or it lacks a feature our Init requires; otherwise the peer is listed.
fn init_content_scenarios(rec: &mut Rec, rng: &mut Rng, secp: &Secp, rounds: usize) {
	use lightning::ln::functional_test_utils::{create_chanmon_cfgs, create_network, create_node_cfgs, create_node_chanmgrs};
	use lightning::util::ser::LengthReadable;
	use bitcoin::constants::ChainHash;
	let built = guarded(AssertUnwindSafe(|| {
		let chanmon_cfgs = leak(create_chanmon_cfgs(1));
		let node_cfgs = leak(create_node_cfgs(1, chanmon_cfgs));
		let chanmgrs = leak(create_node_chanmgrs(1, node_cfgs, &[None]));
		leak(create_network(1, node_cfgs, chanmgrs))
	}));
	let nodes = match built { Ok(n) => n, Err(e) => { rec.oracle_fail(format!("could not build a test node: {}", e)); return; } };
	let node = &nodes[0];
	let mh = MessageHandler { chan_handler: node.node, route_handler: leak(IgnoringMessageHandler {}), onion_message_handler: leak(IgnoringMessageHandler {}), custom_message_handler: leak(Handler::new()), send_only_message_handler: leak(IgnoringMessageHandler {}) };
	let pm = PeerManager::new(mh, 0, &rng.bytes32(), leak(NullLogger), node.keys_manager);
	let node_id = node.node.get_our_node_id();
	let (ours, foreign) = (ChainHash::using_genesis_block(bitcoin::Network::Testnet), ChainHash::using_genesis_block(bitcoin::Network::Bitcoin));
	for i in 0..rounds * 8 {
		let mut d = Desc::new(20_000 + i as u64);
		let my = rand_sk(rng);
		let (mut enc, init) = match enc_handshake_with_key(&pm, node_id, rng, secp, &mut d, &my) { Ok(x) => x, Err(e) => { rec.oracle_fail(format!("handshake with the ChannelManager-backed PeerManager failed: {}", e)); return; } };
		let base: Init = match LengthReadable::read_from_fixed_length_buffer(&mut &init[2..]) { Ok(m) => m, Err(_) => { rec.oracle_fail("the node's own Init does not decode".into()); return; } };
		let mut m = base.clone();
		let mut flags = base.features.le_flags().to_vec();
		let (what, want_refused): (String, bool) = match i % 8 {
			0 => ("echo of the node's own Init".into(), false),
			1 => { let bit = 2 * (150 + rng.below(100) as usize); flags.resize(bit / 8 + 1, 0); flags[bit / 8] |= 1 << (bit % 8); (format!("unknown EVEN feature bit {} set", bit), true) },
			2 => { let bit = 2 * (150 + rng.below(100) as usize) + 1; flags.resize(bit / 8 + 1, 0); flags[bit / 8] |= 1 << (bit % 8); (format!("unknown odd feature bit {} set", bit), false) },
			3 => { m.networks = Some(vec![foreign]); ("networks = [bitcoin mainnet] only (node is testnet)".into(), true) },
			4 => { m.networks = Some(vec![foreign, ours]); ("networks = [mainnet, testnet]".into(), false) },
			5 => { m.networks = None; ("no networks TLV".into(), false) },
			6 => { m.networks = Some(vec![]); ("empty networks list".into(), true) },
			_ => { flags = vec![]; ("no feature bits at all".into(), base.features.requires_unknown_bits_from(&InitFeatures::empty())) },
		};
		m.features = InitFeatures::from_le_bytes(flags);
		let mut plain = vec![0u8, 16]; plain.extend(m.encode());
		let ctx = format!("Init variant: {} ; Init bytes {} ; the node's own Init {}", what, hex(&plain), hex(&init));
		let r = guarded(AssertUnwindSafe(|| {
			let f = enc.encrypt_buffer(&plain).unwrap();
			let refused = pm.read_event(&mut d, &f).is_err();
			pm.process_events();
			(refused, pm.peer_by_node_id(&pk(secp, &my)).is_some())
		}));
		match r {
			Err(p) => { rec.oracle_fail(format!("Init compatibility: PeerManager panicked: {} ; {}", p, ctx)); return; },
			Ok((refused, listed)) => {
				if refused != want_refused || listed == want_refused { rec.oracle_fail(format!("Init compatibility: the Init was {} (peer listed: {}) but the rules (no common chain when `networks` is present / unknown even bit / a feature we require is missing => disconnect before anything else is handled) say {} ; {}", if refused { "refused" } else { "accepted" }, listed, if want_refused { "refuse" } else { "accept" }, ctx)); }
				if !refused { pm.socket_disconnected(&d); }
			},
		}
		oracle_case(rec, &format!("note init-content {} {}", i, what), if want_refused { "init-content:refused" } else { "init-content:accepted" });
	}
}

/// (4b) the same nonsense through a PeerManager whose handlers are a real ChannelManager,
/// P2PGossipSync and OnionMessenger (the whole library behind the transport): no panic.
fn nonsense_chanman(rec: &mut Rec, rng: &mut Rng, secp: &Secp, n_conn: usize) {
	use lightning::ln::functional_test_utils::{create_chanmon_cfgs, create_network, create_node_cfgs, create_node_chanmgrs};
	let built = guarded(AssertUnwindSafe(|| {
		let chanmon_cfgs = leak(create_chanmon_cfgs(1));
		let node_cfgs = leak(create_node_cfgs(1, chanmon_cfgs));
		let chanmgrs = leak(create_node_chanmgrs(1, node_cfgs, &[None]));
		leak(create_network(1, node_cfgs, chanmgrs))
	}));
	let nodes = match built { Ok(n) => n, Err(e) => { rec.oracle_fail(format!("could not build a test node: {}", e)); return; } };
	let node = &nodes[0];
	let mh = MessageHandler { chan_handler: node.node, route_handler: &node.gossip_sync, onion_message_handler: &node.onion_messenger, custom_message_handler: leak(Handler::new()), send_only_message_handler: leak(IgnoringMessageHandler {}) };
	let pm = PeerManager::new(mh, 0, &rng.bytes32(), leak(NullLogger), node.keys_manager);
	let node_id = node.node.get_our_node_id();
	for i in 0..n_conn {
		let mut d = Desc::new(1000 + i as u64);
		let (mut enc, init) = match enc_handshake_generic(&pm, node_id, rng, secp, &mut d) { Ok(x) => x, Err(e) => { rec.oracle_fail(format!("handshake with the ChannelManager-backed PeerManager failed: {}", e)); return; } };
		let mut seq: Vec<Vec<u8>> = vec![init];
		for _ in 0..(1 + rng.below(12)) { seq.push(nonsense_msg(rng)); }
		let r = guarded(AssertUnwindSafe(|| {
			for m in seq.iter() {
				let f = enc.encrypt_buffer(m).unwrap();
				if pm.read_event(&mut d, &f).is_err() { return; }
				pm.process_events();
				let _ = node.node.get_and_clear_pending_events();
				if rng.chance(1, 6) { pm.timer_tick_occurred(); node.node.timer_tick_occurred(); }
				if d.s.lock().unwrap().disconnected { return; }
				d.s.lock().unwrap().out.clear();
			}
			pm.socket_disconnected(&d);
		}));
		if let Err(e) = r { rec.oracle_fail(format!("well-formed message sequence panicked a node with a real ChannelManager: {} ; messages {:?}", e, seq.iter().skip(1).map(|m| hex(&m[..m.len().min(60)])).collect::<Vec<_>>())); oracle_case(rec, "note nonsense-chanman aborted-after-panic", "nonsense:real-channelmanager"); return; } // the PeerManager's locks are poisoned now
		oracle_case(rec, &format!("note nonsense-chanman {}", seq.iter().skip(1).map(|m| format!("{}:{}", u16::from_be_bytes([m[0], m[1]]), m.len())).collect::<Vec<_>>().join(",")), "nonsense:real-channelmanager");
	}
}

/// (5) gossip query replies: a peer's `query_channel_range` makes the node build `reply_channel_range`
/// messages whose size follows from how many channels the query covers; each batch must fit a frame.
/// A node with a real P2PGossipSync over a graph of `n_chan` announced channels (one per block).
fn range_reply_scenario(rec: &mut Rec, rng: &mut Rng, secp: &Secp, n_chan: usize) {
	use bitcoin::hashes::Hash;
	use lightning::routing::gossip::{NetworkGraph, NodeId, P2PGossipSync};
	use lightning::types::features::ChannelFeatures;
	let chain = bitcoin::constants::ChainHash::using_genesis_block(bitcoin::Network::Testnet);
	let logger = leak(CapLogger::new());
	let graph = leak(NetworkGraph::new(bitcoin::Network::Testnet, logger));
	let mut keys: Vec<SecretKey> = (0..4).map(|_| rand_sk(rng)).collect();
	if pk(secp, &keys[0]).serialize() > pk(secp, &keys[1]).serialize() { keys.swap(0, 1); } // "node_ids in channel_announcements must be sorted"
	let ids: Vec<NodeId> = keys.iter().map(|k| NodeId::from_pubkey(&pk(secp, k))).collect();
	for i in 0..n_chan {
		let contents = msgs::UnsignedChannelAnnouncement { features: ChannelFeatures::empty(), chain_hash: chain, short_channel_id: ((i as u64) + 1) << 40, node_id_1: ids[0], node_id_2: ids[1], bitcoin_key_1: ids[2], bitcoin_key_2: ids[3], excess_data: vec![] };
		let h = bitcoin::hashes::sha256d::Hash::hash(&contents.encode()[..]);
		let m = bitcoin::secp256k1::Message::from_digest(h.to_byte_array());
		let ann = msgs::ChannelAnnouncement { node_signature_1: secp.sign_ecdsa(&m, &keys[0]), node_signature_2: secp.sign_ecdsa(&m, &keys[1]), bitcoin_signature_1: secp.sign_ecdsa(&m, &keys[2]), bitcoin_signature_2: secp.sign_ecdsa(&m, &keys[3]), contents };
		if let Err(e) = graph.update_channel_from_announcement_no_lookup(&ann) { rec.oracle_fail(format!("could not build the gossip graph: {}", e.err)); return; }
	}
	let node_secret = rand_sk(rng);
	let sync = leak(P2PGossipSync::new(&*graph, None::<&'static lightning::util::test_utils::TestChainSource>, &*logger));
	let mh = MessageHandler { chan_handler: leak(ErroringMessageHandler::new()), route_handler: &*sync, onion_message_handler: leak(IgnoringMessageHandler {}), custom_message_handler: leak(Handler::new()), send_only_message_handler: leak(IgnoringMessageHandler {}) };
	let pm = PeerManager::new(mh, 0, &rng.bytes32(), &*logger, leak(TestNodeSigner::new(node_secret)));
	let node_id = pk(secp, &node_secret);
	let n = n_chan as u32;
	// (first_blocknum, number_of_blocks): exactly one full batch, one more, one less, everything, nothing, a wrapping end
	let queries: Vec<(u32, u32)> = vec![(1, 8000), (1, 8001), (1, 7999), (0, u32::MAX), (n + 5, 10), (2, 0), (1, 2 * 8000), (n - 8000 + 1, u32::MAX), (rng.range(1, 100) as u32, rng.range(1, n as u64) as u32)];
	for (qi, (first, nblocks)) in queries.iter().enumerate() {
		let mut d = Desc::new(5000 + qi as u64);
		let (mut enc, init) = match enc_handshake_generic(&pm, node_id, rng, secp, &mut d) { Ok(x) => x, Err(e) => { rec.oracle_fail(format!("handshake with the gossip-backed PeerManager failed: {}", e)); return; } };
		let mut q = vec![1u8, 7]; q.extend(chain.as_bytes()); q.extend(first.to_be_bytes()); q.extend(nblocks.to_be_bytes()); // 263 = query_channel_range
		let ctx = format!("query_channel_range first_blocknum={} number_of_blocks={} against a graph of {} channels (one per block from block 1)", first, nblocks, n_chan);
		let mut out: Vec<u8> = vec![];
		let r = guarded(AssertUnwindSafe(|| {
			for m in [&init, &q] {
				let f = enc.encrypt_buffer(m).unwrap();
				let mut pos = 0; while pos < f.len() { let k = rand_chunk(rng, f.len() - pos); if pm.read_event(&mut d, &f[pos..pos + k]).is_err() { return false; } pos += k; }
				pm.process_events();
			}
			let mut quiet = 0;
			while quiet < 3 {
				let was_refused = { let mut s = d.s.lock().unwrap(); s.budget = if quiet > 0 { usize::MAX / 2 } else { rand_budget(rng) }; let r = s.refused; if s.budget > 0 { s.refused = false; } r && s.budget > 0 };
				if was_refused { let _ = pm.write_buffer_space_avail(&mut d); }
				pm.process_events();
				let mut s = d.s.lock().unwrap(); if s.out.is_empty() { quiet += 1; } else { quiet = 0; out.extend(s.out.drain(..)); }
			}
			!d.s.lock().unwrap().disconnected
		}));
		match r {
			Err(e) => { report_panic(rec, &e, &ctx, "init,query_channel_range"); return; }, // the PeerManager's locks are poisoned now
			Ok(false) => { rec.oracle_fail(format!("the node dropped the connection on a well-formed query ; {}", ctx)); continue; },
			Ok(true) => {},
		}
		check_log(rec, logger, &ctx, "init,query_channel_range");
		// decrypt the node's output; keep the reply_channel_range messages (264)
		let mut o = 0usize; let mut scids: Vec<u64> = vec![]; let mut n_replies = 0; let mut complete = false; let mut ok = true;
		while out.len() - o >= 18 {
			let len = match enc.decrypt_length_header(&out[o..o + 18]) { Ok(l) => l as usize, Err(_) => { rec.oracle_fail(format!("the node's output does not decrypt ; {}", ctx)); ok = false; break; } };
			if out.len() - o - 18 < len + 16 { rec.oracle_fail(format!("the node's output ends inside a message ; {}", ctx)); ok = false; break; }
			let mut body = out[o + 18..o + 18 + len + 16].to_vec();
			if enc.decrypt_message(&mut body).is_err() { rec.oracle_fail(format!("the node's output does not decrypt ; {}", ctx)); ok = false; break; }
			body.truncate(len); o += 18 + len + 16;
			if body.len() < 2 || u16::from_be_bytes([body[0], body[1]]) != 264 { continue; }
			// type 2, chain_hash 32, first_blocknum 4, number_of_blocks 4, sync_complete 1, encoding_len 2, encoding type 1, 8 per id
			if body.len() < 46 || (body.len() - 46) % 8 != 0 { rec.oracle_fail(format!("malformed reply_channel_range of {} bytes ; {}", body.len(), ctx)); ok = false; break; }
			let k = (body.len() - 46) / 8;
			let enc_len = u16::from_be_bytes([body[43], body[44]]) as usize;
			if enc_len != 1 + 8 * k { rec.oracle_fail(format!("reply_channel_range with {} ids declares encoding_len {} ; {}", k, enc_len, ctx)); }
			if complete { rec.oracle_fail(format!("a reply_channel_range follows the one marked sync_complete ; {}", ctx)); }
			complete = body[42] == 1;
			for j in 0..k { scids.push(u64::from_be_bytes(body[46 + 8 * j..54 + 8 * j].try_into().unwrap())); }
			n_replies += 1;
			rec.case(&format!("rcr {}", k), &body.len().to_string(), if k >= 8000 { "range-reply:full-batch" } else if k == 0 { "range-reply:empty" } else { "range-reply" }, true);
		}
		if !ok { continue; }
		let end = (*first as u64 + *nblocks as u64).min(1 << 24);
		let want: Vec<u64> = if *nblocks == 0 { vec![] } else { (1..=n_chan as u64).filter(|b| *b >= *first as u64 && *b < end).map(|b| b << 40).collect() };
		if scids != want { rec.oracle_fail(format!("reply_channel_range batches carry {} ids, the query covers {} (a message was silently dropped (sent by the handler, never delivered, no disconnect) or truncated) ; {} ; {} replies", scids.len(), want.len(), ctx, n_replies)); }
		if n_replies == 0 || !complete { rec.oracle_fail(format!("the query was not answered completely ({} replies, last sync_complete={}) ; {}", n_replies, complete, ctx)); }
		pm.socket_disconnected(&d);
	}
}

/// a BOLT message with a valid type and random (often well-formed) contents
fn nonsense_msg(rng: &mut Rng) -> Vec<u8> {
	use lightning::ln::types::ChannelId;
	let cid = ChannelId(rng.bytes32());
	let mut v = vec![];
	match rng.below(12) {
		0 => { let m = msgs::Ping { ponglen: rng.below(70000) as u16, byteslen: rng.below(300) as u16 }; v.extend(18u16.to_be_bytes()); v.extend(m.encode()); },
		1 => { let m = msgs::Pong { byteslen: rng.below(300) as u16 }; v.extend(19u16.to_be_bytes()); v.extend(m.encode()); },
		2 => { let m = msgs::ErrorMessage { channel_id: cid, data: "x".repeat(rng.below(50) as usize) }; v.extend(17u16.to_be_bytes()); v.extend(m.encode()); },
		3 => { let m = msgs::WarningMessage { channel_id: cid, data: "w".repeat(rng.below(50) as usize) }; v.extend(1u16.to_be_bytes()); v.extend(m.encode()); },
		4 => { let m = msgs::Shutdown { channel_id: cid, scriptpubkey: { let n = rng.below(40) as usize; bitcoin::ScriptBuf::from(rng.bytes(n)) } }; v.extend(38u16.to_be_bytes()); v.extend(m.encode()); },
		5 => { let m = msgs::UpdateFee { channel_id: cid, feerate_per_kw: rng.next() as u32 }; v.extend(134u16.to_be_bytes()); v.extend(m.encode()); },
		6 => { v.extend(135u16.to_be_bytes()); v.extend(rng.bytes32()); v.extend(rng.next().to_be_bytes()); v.extend(rng.bytes32()); v.extend((rng.next() as u16).to_be_bytes()); },
		7 => { let m = msgs::GossipTimestampFilter { chain_hash: bitcoin::constants::ChainHash::using_genesis_block(bitcoin::Network::Testnet), first_timestamp: rng.next() as u32, timestamp_range: rng.next() as u32 }; v.extend(265u16.to_be_bytes()); v.extend(m.encode()); },
		8 => { let m = msgs::QueryChannelRange { chain_hash: bitcoin::constants::ChainHash::using_genesis_block(bitcoin::Network::Testnet), first_blocknum: rng.next() as u32, number_of_blocks: rng.next() as u32 }; v.extend(263u16.to_be_bytes()); v.extend(m.encode()); },
		9 => {
			// a known channel-message type followed by random bytes of a plausible length
			let ty = *rng.pick(&[32u16, 33, 34, 35, 36, 128, 130, 131, 132, 133, 136, 2, 7, 9, 64, 65, 66, 72, 74, 127, 256, 257, 258, 259, 261, 262, 264, 513]);
			v.extend(ty.to_be_bytes()); let n = rng.below(400) as usize; v.extend(rng.bytes(n));
		},
		10 => { v.extend(known_ty(rng).to_be_bytes()); let n = rng.below(100) as usize; v.extend(rng.bytes(n)); },
		_ => { v.extend((rng.below(65536) as u16).to_be_bytes()); let n = rng.below(200) as usize; v.extend(rng.bytes(n)); },
	}
	v
}

fn main() {
	let args = &parse_args("c15cipher");
	match args.model.as_str() {
		"c15cipher" => run_cipher(args),
		"c15peer" => run_peer(args),
		m => { eprintln!("unknown model {}", m); std::process::exit(2); },
	}
}
