use ldk_verif_harness::common::*;
use ldk_verif_harness::sim::*;
fn main() {
	let _args = parse_args("simtest");
	let mut net = Net::new(3, vec![None, None, None]);
	let c0 = net.open(0, 1, 1_000_000, 400_000_000);
	let c1 = net.open(1, 2, 1_000_000, 400_000_000);
	let p = net.send(&[0, 1, 2], &[c0, c1], 5_000_000, 70).unwrap();
	net.settle(6);
	eprintln!("claimable at 2: {:?}", net.claimable[2].len());
	net.claim(p);
	// deliver fulfill to node 1 then restart node 1 mid-way
	if let Some((i, j)) = net.any_queued() { net.deliver(i, j); }
	let r = net.restart(1);
	eprintln!("restart: {:?}", r);
	net.reconnect(0, 1); net.reconnect(1, 2);
	net.settle(10);
	for o in &net.trace { if !matches!(o, Obs::Balance{..}) { eprintln!("  {}", fmt_obs(o)); } }
	for i in 0..3 { eprintln!("{:?}", net.channel_dump(i)); }
	std::mem::forget(net);
}
