use ldk_verif_harness::common::*;
use ldk_verif_harness::sim::*;
fn main() {
	let args = parse_args("simtest");
	let mut rng = Rng::new(args.seed);
	let mut net = Net::new(2, vec![None, None]);
	let c = net.open(0, 1, 1_000_000, 400_000_000);
	eprintln!("opened chan {}", c);
	for step in 0..60 {
		let r = rng.below(10);
		match r {
			0 | 1 => { let (a, b) = if rng.chance(1, 2) { (0, 1) } else { (1, 0) }; let amt = 1000 + rng.below(50_000_000); let r = net.send(&[a, b], &[c], amt, 70); eprintln!("{} send {}->{} {} => {:?}", step, a, b, amt, r.map(|_| ())); },
			2 | 3 | 4 | 5 => { if let Some((i, j)) = net.any_queued() { let k = net.deliver(i, j); eprintln!("{} deliver {}->{} {:?}", step, i, j, k); } },
			6 => { let i = rng.below(2) as usize; net.forward(i); net.process_events(i); eprintln!("{} fwd+events {}", step, i); },
			7 => { if !net.pays.is_empty() { let p = rng.below(net.pays.len() as u64) as usize; if net.claimable[net.pays[p].to].iter().any(|c| c.0 == net.pays[p].hash) { net.claim(p); eprintln!("{} claim {}", step, p); } } },
			8 => { let i = rng.below(2) as usize; let m = !net.in_progress[i]; if m || net.pending_updates(i, c).is_empty() { net.set_mode(i, m); eprintln!("{} mode {} {}", step, i, m); } },
			_ => { let i = rng.below(2) as usize; let p = net.pending_updates(i, c); if !p.is_empty() { let id = *rng.pick(&p); net.complete(i, c, id); eprintln!("{} complete {} {}", step, i, id); } },
		}
	}
	for o in &net.trace { eprintln!("  {}", fmt_obs(o)); }
	eprintln!("{:?}", net.channel_dump(0));
	eprintln!("{:?}", net.channel_dump(1));
	std::mem::forget(net);
}
