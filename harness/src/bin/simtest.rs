//! scratch probes of the scenario engine (not part of any check)
use ldk_verif_harness::common::*;
use ldk_verif_harness::sim::*;
fn main() {
	let _args = parse_args("simtest");
	let cfg = Some(lightning::ln::functional_test_utils::test_legacy_channel_config());
	let mut net = Net::new(2, vec![cfg.clone(), cfg]);
	let c = net.open(0, 1, 100_000, 50_000_000);
	for _ in 0..2 { let p = net.send(&[0, 1], &[c], 19_160_000, 80).unwrap(); net.settle(8); net.claim(p); net.settle(8); }
	eprintln!("A {:?}", net.channel_dump(0));
	for i in 0..2 { *net.nodes[i].fee_estimator.sat_per_kw.lock().unwrap() = 10_000; }
	net.nodes[0].node.timer_tick_occurred(); net.pump(0);
	net.settle(8);
	eprintln!("feerate now {:?}", net.nodes[0].node.list_channels()[0].feerate_sat_per_1000_weight);
	eprintln!("A {:?}", net.channel_dump(0));
	eprintln!("B {:?}", net.channel_dump(1));
	for k in 0..4 {
		let lim = net.nodes[1].node.list_channels()[0].next_outbound_htlc_limit_msat;
		let amt = 7_500_000u64.min(lim); if amt == 0 { break; }
		eprintln!("B limit {} -> sending {}", lim, amt);
		let r = net.send(&[1, 0], &[c], amt, 80);
		eprintln!("send {} => {:?}", k, r);
		net.settle(8);
	}
	for o in &net.trace { if matches!(o, Obs::Event{..} | Obs::ProtoError{..}) { eprintln!("  {}", fmt_obs(o)); } }
	eprintln!("A {:?}", net.channel_dump(0));
	eprintln!("B {:?}", net.channel_dump(1));
	std::mem::forget(net);
}
