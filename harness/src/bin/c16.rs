//! C16 — routes returned by the real router are valid for the graph and the caller's constraints.
//!
//! model `c16fees`  (hooks `lightning::ln::verif_hooks::router`):
//!   fees <amt> <base> <prop>                      compute_fees            -> some <n> | none
//!   feessat <amt> <base> <prop>                   compute_fees_saturating -> <n>
//!   maxhtlc <kind> <a> <b> <shift>                max_htlc_from_capacity  -> <n>
//!   recompute <value> <n> (<base> <prop> <min>)*  PaymentPath::update_value_and_recompute_fees on a
//!                                                 synthetic path -> ok <ret> <fee_msat>* | panic
//! model `c16router` (public `find_route` on random `NetworkGraph`s built from unsigned announcements
//! / partial announcements and unsigned channel updates; no first hops, hints or blinded paths in v1):
//!   route <req> X <k> <scid>* G <n> <chan>* R <k> (<nhops> (<scid> <node> <fee_msat> <cltv>)*)*
//!        impl answer: the harness's own re-check of the property's clauses on the real route
//!        (`valid` / `invalid <clause>`) and `recur=eq|skip` (claim: the path's fee_msats are what the
//!        fee recurrence yields for the delivered value); the Lean driver answers with the verified
//!        checker `routeValid` and its own run of the recurrence.
//!   noroute <req> X <k> <scid>* G <n> <chan>*     router returned Err -> ref=found|ref=none (reference
//!        single-path reachability, same definition on both sides)
//!   <req>  = <payer> <payee> <amt> <maxfee|-> <maxcltv> <maxpaths> <maxlen> <finalcltv> <mpp> <satpow> <scorer> <seed>
//!            (the last four only make a line replayable: `c16 c16replay --replay FILE`; the model ignores them)
//!   <chan> = <scid> <src> <dst> <enabled> <htlcmin> <htlcmax> <cap_msat|-> <base> <prop> <cltv>
//! The graph on the line is dumped from `NetworkGraph::read_only()` (not from what the generator sent).
use bitcoin::amount::Amount;
use bitcoin::constants::ChainHash;
use bitcoin::secp256k1::{PublicKey, Secp256k1, SecretKey};
use bitcoin::{Network, TxOut};
use ldk_verif_harness::common::*;
use lightning::ln::chan_utils::make_funding_redeemscript;
use lightning::ln::msgs::{UnsignedChannelAnnouncement, UnsignedChannelUpdate};
use lightning::ln::verif_hooks::router as vr;
use lightning::routing::gossip::{EffectiveCapacity, NetworkGraph, NodeId};
use lightning::routing::router::{find_route, PaymentParameters, Route, RouteParameters};
use lightning::routing::scoring::{
	FixedPenaltyScorer, ProbabilisticScorer, ProbabilisticScoringDecayParameters,
	ProbabilisticScoringFeeParameters,
};
use lightning::routing::utxo::{UtxoLookup, UtxoLookupError, UtxoResult};
use lightning::types::features::ChannelFeatures;
use lightning::util::wakers::Notifier;
use std::collections::{HashMap, HashSet};
use std::panic::AssertUnwindSafe;
use std::sync::Arc;

static LOGGER: NullLogger = NullLogger;
/// source location of the last panic (filled by the panic hook installed in `main`)
static LAST_PANIC_AT: std::sync::Mutex<String> = std::sync::Mutex::new(String::new());
type Graph = NetworkGraph<&'static NullLogger>;

struct Stub(Result<TxOut, UtxoLookupError>);
impl UtxoLookup for Stub {
	fn get_utxo(&self, _c: &ChainHash, _scid: u64, _n: Arc<Notifier>) -> UtxoResult { UtxoResult::Sync(self.0.clone()) }
}

// ------------------------------------------------------------------------------------------------
// c16fees

fn fees_model(args: &Args) {
	let mut rec = Rec::new(&args.out, "c16fees");
	let mut rng = Rng::new(args.seed ^ 0xfee5);
	let n = if args.thorough { 60_000 } else { 4_000 } * args.scale;
	let u32s: Vec<u64> = vec![0, 1, 2, 999, 1000, 1_000_000, 999_999, 1_000_001, u32::MAX as u64, u32::MAX as u64 - 1];
	let pick_u32 = |rng: &mut Rng| -> u64 { match rng.below(4) { 0 => *rng.pick(&u32s), 1 => rng.below(5000), 2 => rng.below(1 << 20), _ => rng.next() & 0xffff_ffff } };
	let pick_amt = |rng: &mut Rng, prop: u64| -> u64 {
		match rng.below(7) {
			0 => rng.below(10),
			1 => rng.below(1 << 32),
			2 => rng.below(21_000_000 * 100_000_000 * 1000),
			3 => near(rng, u64::MAX / prop.max(1)),                 // product overflow boundary
			4 => u64::MAX - rng.below(3),
			5 => near(rng, (u64::MAX / prop.max(1)).saturating_mul(1)).saturating_add(rng.below(1_000_000)),
			_ => rng.next(),
		}
	};
	for _ in 0..n {
		let prop = pick_u32(&mut rng);
		let base = pick_u32(&mut rng);
		let amt = pick_amt(&mut rng, prop);
		let r = vr::compute_fees(amt, base as u32, prop as u32);
		// implementation-side oracle (no model): the closed form in 128-bit arithmetic
		let prod = amt as u128 * prop as u128;
		let want = if prod > u64::MAX as u128 { None } else { let s = base as u128 + prod / 1_000_000; if s > u64::MAX as u128 { None } else { Some(s as u64) } };
		if r != want { rec.oracle_fail(format!("compute_fees({}, base {}, prop {}) = {:?}, 128-bit arithmetic gives {:?}", amt, base, prop, r, want)); }
		let (res, class) = match r { Some(f) => (format!("some {}", f), "fees:some"), None => ("none".to_string(), "fees:none") };
		rec.case(&format!("fees {} {} {}", amt, base, prop), &res, class, true);
		let s = vr::compute_fees_saturating(amt, base as u32, prop as u32);
		if s != want.unwrap_or(u64::MAX) { rec.oracle_fail(format!("compute_fees_saturating({}, {}, {}) = {} but compute_fees = {:?}", amt, base, prop, s, want)); }
		rec.case(&format!("feessat {} {} {}", amt, base, prop), &s.to_string(), if s == u64::MAX { "feessat:max" } else { "feessat:value" }, true);
	}
	// max_htlc_from_capacity
	for _ in 0..n / 4 {
		let a = match rng.below(4) { 0 => rng.below(10), 1 => rng.below(1 << 40), 2 => u64::MAX - rng.below(2), _ => rng.next() };
		let b = match rng.below(4) { 0 => rng.below(10), 1 => rng.below(1 << 40), 2 => { let sh = rng.below(4); near(&mut rng, a >> sh) }, _ => rng.next() };
		let shift = match rng.below(4) { 0 => rng.below(4), 1 => rng.range(60, 70), 2 => rng.below(256), _ => 0 } as u8;
		let (kind, cap) = match rng.below(6) {
			0 => ("exact", EffectiveCapacity::ExactLiquidity { liquidity_msat: a }),
			1 => ("adv", EffectiveCapacity::AdvertisedMaxHTLC { amount_msat: a }),
			2 => ("total", EffectiveCapacity::Total { capacity_msat: a, htlc_maximum_msat: b }),
			3 => ("inf", EffectiveCapacity::Infinite),
			4 => ("hint", EffectiveCapacity::HintMaxHTLC { amount_msat: a }),
			_ => ("unknown", EffectiveCapacity::Unknown),
		};
		let r = vr::max_htlc_from_capacity(cap, shift);
		rec.case(&format!("maxhtlc {} {} {} {}", kind, a, b, shift), &r.to_string(), &format!("maxhtlc:{}", kind), true);
	}
	// the fee recurrence on synthetic paths
	for _ in 0..n / 2 {
		let len = match rng.below(8) { 0 => 1, 1 => 2, 7 => rng.range(9, 20), _ => rng.range(2, 8) } as usize;
		let huge = rng.chance(1, 12);
		let value = match rng.below(5) { 0 => rng.range(1, 10), 1 => rng.range(1, 100_000), 2 => rng.range(1, 1 << 40), 3 => 1000 * rng.range(1, 1000), _ => if huge { rng.range(1 << 44, 1 << 50) } else { rng.range(1, 1 << 32) } };
		let mut hops = vec![];
		for _ in 0..len {
			let base = match rng.below(4) { 0 => 0, 1 => rng.below(3), 2 => rng.below(5000), _ => if huge { pick_u32(&mut rng) } else { rng.below(100_000) } };
			let prop = match rng.below(5) { 0 => 0, 1 => rng.below(3), 2 => rng.below(5000), 3 => rng.below(1_000_001), _ => if huge { pick_u32(&mut rng) } else { rng.below(200_000) } };
			let min = match rng.below(6) { 0 => 0, 1 => 1, 2 => near(&mut rng, value), 3 => value + rng.below(value.min(1 << 20) + 1), 4 => rng.below(2 * value + 1), _ => if huge { rng.below(1 << 50) } else { rng.below(1000) } };
			hops.push((base as u32, prop as u32, min));
		}
		let r = guarded(AssertUnwindSafe(|| vr::update_value_and_recompute_fees(&hops, value)));
		let op = format!("recompute {} {}{}", value, len, hops.iter().map(|h| format!(" {} {} {}", h.0, h.1, h.2)).collect::<String>());
		match r {
			Err(_) => rec.case(&op, "panic", "recompute:panic(fee overflow)", true),
			Ok((fees, ret)) => {
				// impl-side oracle, independent of the model: minimums and fee margins on the route-level amounts
				let mut amts = vec![0u128; len];
				let mut acc = 0u128;
				for i in (0..len).rev() { acc += fees[i] as u128; amts[i] = acc; }
				let raise = ret - value;
				let mut class = if raise > 0 { "recompute:final-hop-raised" } else { "recompute:plain" };
				for i in 0..len {
					if amts[i] < hops[i].2 as u128 { rec.oracle_fail(format!("update_value_and_recompute_fees: hop {} carries {} < htlc_minimum {} ({})", i, amts[i], hops[i].2, op)); }
					if i + 1 < len {
						let fwd = amts[i + 1];
						let need = hops[i + 1].0 as u128 + fwd * hops[i + 1].1 as u128 / 1_000_000;
						if (fees[i] as u128) < need {
							let tag = if raise > 0 { "KF-C16-1 (function level) final-hop raised to htlc_minimum, upstream fee computed without the raise: " } else { "" };
							rec.oracle_fail(format!("{}update_value_and_recompute_fees: node before hop {} paid {} < policy fee {} ({})", tag, i + 1, fees[i], need, op));
						} else if i + 1 < len && amts[i + 1] == hops[i + 1].2 as u128 && (fees[i] as u128) > need && raise == 0 && class == "recompute:plain" { class = "recompute:intermediate-raise"; }
					}
				}
				if fees[len - 1] != ret { rec.oracle_fail(format!("update_value_and_recompute_fees: returned {} but last fee_msat {} ({})", ret, fees[len - 1], op)); }
				rec.case(&op, &format!("ok {}{}", ret, fees.iter().map(|f| format!(" {}", f)).collect::<String>()), class, true);
			},
		}
	}
	rec.notes.insert("rule".into(), "PRNG tuples around the u64 product/sum overflow boundaries of compute_fees (+ saturating variant), all EffectiveCapacity kinds with shifts 0..255, and synthetic hop lists (1..20 hops; zero/huge fees; minimums around the value) through the real update_value_and_recompute_fees; every case distinct by op text.; impl-side oracle: minimums and policy-fee margins on every output, also after a final-hop raise (KF-C16-1 was repaired in /repo 2ea5edc)".into());
	rec.finish();
}

// ------------------------------------------------------------------------------------------------
// c16router

#[derive(Clone, Debug)]
struct Chan { scid: u64, src: usize, dst: usize, enabled: bool, hmin: u64, hmax: u64, cap: Option<u64>, base: u64, prop: u64, cltv: u64 }
impl Chan { fn limit(&self) -> u64 { match self.cap { Some(k) => self.hmax.min(k), None => self.hmax } } }
#[derive(Clone, Debug)]
struct Req { payer: usize, payee: usize, amt: u64, maxfee: Option<u64>, maxcltv: u64, maxpaths: u64, maxlen: u64, finalcltv: u64, excluded: Vec<u64>,
	/// replay information only (not part of the property): payee advertises MPP, saturation power, scorer kind, seed byte
	mpp: bool, satpow: u8, scorer: u64, seed0: u8 }
#[derive(Clone, Debug)]
struct Hop { scid: u64, node: usize, fee: u64, cltv: u64 }

fn lookup<'a>(g: &'a [Chan], scid: u64, src: usize, dst: usize) -> Option<&'a Chan> { g.iter().find(|c| c.scid == scid && c.src == src && c.dst == dst) }
fn policy_fee(c: &Chan, amt: u128) -> Option<u128> {
	let prod = amt * c.prop as u128;
	if prod > u64::MAX as u128 { return None; }
	let s = c.base as u128 + prod / 1_000_000;
	if s > u64::MAX as u128 { None } else { Some(s) }
}

/// The harness's own re-check of the property's clauses (independent of the Lean model).
fn recheck(g: &[Chan], q: &Req, r: &[Vec<Hop>]) -> Result<(), (&'static str, String)> {
	if r.len() as u64 > q.maxpaths { return Err(("paths", format!("{} paths > max_path_count {}", r.len(), q.maxpaths))); }
	let delivered: u128 = r.iter().map(|p| p.last().map_or(0, |h| h.fee as u128)).sum();
	let over = delivered.saturating_sub(q.amt as u128);
	let mut uses: Vec<(u64, usize, usize, u128)> = vec![];
	let mut chain_err: Option<String> = None;
	for (pi, path) in r.iter().enumerate() {
		if path.is_empty() { chain_err.get_or_insert(format!("path {} empty", pi)); continue; }
		let n = path.len();
		let mut amts = vec![0u128; n];
		let mut acc = 0u128;
		for i in (0..n).rev() { acc += path[i].fee as u128; amts[i] = acc; }
		let mut src = q.payer;
		let mut chans: Vec<Option<&Chan>> = vec![];
		for h in path.iter() { chans.push(lookup(g, h.scid, src, h.node)); src = h.node; }
		for i in 0..n {
			let c = match chans[i] { Some(c) => c, None => { chain_err.get_or_insert(format!("path {} hop {}: no channel {} from node {} to node {} in the graph", pi, i, path[i].scid, if i == 0 { q.payer } else { path[i - 1].node }, path[i].node)); break; } };
			if lookup(g, c.scid, c.dst, c.src).is_none() { chain_err.get_or_insert(format!("path {} hop {}: channel {} has no policy for the reverse direction (not usable)", pi, i, c.scid)); }
			if !c.enabled { chain_err.get_or_insert(format!("path {} hop {}: channel {} direction disabled", pi, i, c.scid)); }
			if (c.hmin as u128) > amts[i] { chain_err.get_or_insert(format!("path {} hop {}: amount {} below htlc_minimum {} of channel {}", pi, i, amts[i], c.hmin, c.scid)); }
			if q.excluded.contains(&c.scid) { chain_err.get_or_insert(format!("path {} hop {}: excluded channel {}", pi, i, c.scid)); }
			if i + 1 < n {
				match chans[i + 1] {
					None => { chain_err.get_or_insert(format!("path {} hop {}: next channel unknown", pi, i)); },
					Some(c2) => {
						match policy_fee(c2, amts[i + 1]) {
							None => { chain_err.get_or_insert(format!("path {} hop {}: policy fee of channel {} overflows on {}", pi, i + 1, c2.scid, amts[i + 1])); },
							Some(f) => if f > path[i].fee as u128 { chain_err.get_or_insert(format!("path {} node {} forwards {} msat over channel {} (base {} prop {}) but is paid {} < {}", pi, path[i].node, amts[i + 1], c2.scid, c2.base, c2.prop, path[i].fee, f)); },
						}
						if c2.cltv > path[i].cltv { chain_err.get_or_insert(format!("path {} hop {}: cltv delta {} < policy {} of channel {}", pi, i, path[i].cltv, c2.cltv, c2.scid)); }
					},
				}
			} else {
				if path[i].node != q.payee { chain_err.get_or_insert(format!("path {} does not end at the payee", pi)); }
				if q.finalcltv > path[i].cltv { chain_err.get_or_insert(format!("path {}: final cltv delta {} < requested {}", pi, path[i].cltv, q.finalcltv)); }
			}
		}
		// counted amounts (capacity clause): amount less the deliberate raises reported downstream
		let mut raise_at = vec![0u128; n]; // raise reported at hop k (k >= 1)
		for k in 1..n {
			if let Some(c) = chans[k] {
				if amts[k] == c.hmin as u128 {
					let ex = match policy_fee(c, amts[k]) { Some(f) => (path[k - 1].fee as u128).saturating_sub(f), None => 0 };
					raise_at[k] = ex + if k == n - 1 { over } else { 0 };
				}
			}
		}
		let mut src = q.payer;
		for i in 0..n {
			let after: u128 = raise_at[i + 1..].iter().sum();
			uses.push((path[i].scid, src, path[i].node, amts[i].saturating_sub(after)));
			src = path[i].node;
		}
	}
	if let Some(e) = chain_err { return Err(("chain", e)); }
	for path in r { if path.len() as u64 > q.maxlen { return Err(("length", format!("path of {} hops > max_path_length {}", path.len(), q.maxlen))); } }
	for path in r { let t: u128 = path.iter().map(|h| h.cltv as u128).sum(); if t > q.maxcltv as u128 { return Err(("cltv", format!("total cltv {} > max_total_cltv_expiry_delta {}", t, q.maxcltv))); } }
	for c in g {
		let u: u128 = uses.iter().filter(|u| u.0 == c.scid && u.1 == c.src && u.2 == c.dst).map(|u| u.3).sum();
		if u > c.limit() as u128 { return Err(("capacity", format!("channel {} {}->{} carries {} msat jointly > min(htlc_maximum {}, capacity {:?})", c.scid, c.src, c.dst, u, c.hmax, c.cap))); }
	}
	if (q.amt as u128) > delivered { return Err(("amount", format!("delivers {} < requested {}", delivered, q.amt))); }
	for path in r { let d = path.last().unwrap().fee as u128; if delivered - d >= q.amt as u128 { return Err(("superfluous", format!("part of {} msat not needed: {} delivered for {}", d, delivered, q.amt))); } }
	if let Some(m) = q.maxfee {
		let fees: u128 = over + r.iter().map(|p| p[..p.len() - 1].iter().map(|h| h.fee as u128).sum::<u128>()).sum::<u128>();
		if fees > m as u128 { return Err(("fee", format!("total fees {} > max_total_routing_fee_msat {}", fees, m))); }
	}
	Ok(())
}

/// signature of finding KF-C16-1: the path with the underpaid node ends in a hop that sits exactly at
/// its channel's htlc_minimum (update_value_and_recompute_fees raised the final hop; the fees upstream
/// were computed on amounts without the raise)
fn final_raise_signature(g: &[Chan], q: &Req, r: &[Vec<Hop>], detail: &str) -> bool {
	let pi: usize = match detail.strip_prefix("path ").and_then(|t| t.split(' ').next()).and_then(|t| t.parse().ok()) { Some(i) => i, None => return false };
	let p = match r.get(pi) { Some(p) => p, None => return false };
	let n = p.len();
	let src = if n >= 2 { p[n - 2].node } else { q.payer };
	match lookup(g, p[n - 1].scid, src, p[n - 1].node) { Some(c) => c.hmin >= 1 && c.hmin == p[n - 1].fee, None => false }
}

/// claim about the fee recurrence: every returned path's fee_msats are what the recurrence yields for the
/// value the path delivers (`ne` only if a channel of the route is not in the graph)
fn recur_claim(g: &[Chan], q: &Req, r: &[Vec<Hop>]) -> &'static str {
	if r.iter().all(|p| p.is_empty()) { return "skip"; }
	for path in r {
		let mut src = q.payer;
		for h in path { if lookup(g, h.scid, src, h.node).is_none() { return "ne"; } src = h.node; }
	}
	"eq"
}

fn usable(g: &[Chan], q: &Req, c: &Chan) -> bool { lookup(g, c.scid, c.dst, c.src).is_some() && c.enabled && c.hmin <= q.amt && q.amt <= c.limit() && !q.excluded.contains(&c.scid) }
/// reference reachability (same definition as Lean `singlePathExists`)
fn reference(g: &[Chan], q: &Req, edge_ok: &dyn Fn(&Chan) -> bool) -> bool {
	let mut seen: HashSet<usize> = HashSet::new();
	seen.insert(q.payer);
	let mut frontier = vec![q.payer];
	while !frontier.is_empty() {
		if frontier.contains(&q.payee) { return true; }
		let mut next = vec![];
		for c in g { if edge_ok(c) && frontier.contains(&c.src) && !seen.contains(&c.dst) && !next.contains(&c.dst) { next.push(c.dst); } }
		for n in &next { seen.insert(*n); }
		frontier = next;
	}
	false
}

fn req_str(q: &Req) -> String {
	format!("{} {} {} {} {} {} {} {} {} {} {} {} X {}{}", q.payer, q.payee, q.amt, q.maxfee.map_or("-".to_string(), |m| m.to_string()), q.maxcltv, q.maxpaths, q.maxlen, q.finalcltv,
		q.mpp as u8, q.satpow, q.scorer, q.seed0, q.excluded.len(), q.excluded.iter().map(|s| format!(" {}", s)).collect::<String>())
}
fn graph_str(g: &[Chan]) -> String {
	format!("G {}{}", g.len(), g.iter().map(|c| format!(" {} {} {} {} {} {} {} {} {} {}", c.scid, c.src, c.dst, c.enabled as u8, c.hmin, c.hmax, c.cap.map_or("-".to_string(), |k| k.to_string()), c.base, c.prop, c.cltv)).collect::<String>())
}
fn route_str(r: &[Vec<Hop>]) -> String {
	format!("R {}{}", r.len(), r.iter().map(|p| format!(" {}{}", p.len(), p.iter().map(|h| format!(" {} {} {} {}", h.scid, h.node, h.fee, h.cltv)).collect::<String>())).collect::<String>())
}

struct World { pks: Vec<PublicKey>, ids: Vec<NodeId>, index: HashMap<NodeId, usize> }

fn build_graph(rng: &mut Rng, w: &World, n: usize, amt_hint: u64, chain: ChainHash, profile: u64) -> Graph {
	let ng: Graph = NetworkGraph::new(Network::Testnet, &LOGGER);
	let density = rng.range(1, 3);
	let n_chan = (n as u64 * density / 1 + rng.below(n as u64)).max(2) as usize;
	let mut scid = 1u64;
	// a backbone so that most graphs are connected, plus random extra channels (parallel ones allowed)
	let mut pairs: Vec<(usize, usize)> = vec![];
	if rng.chance(5, 6) { for i in 1..n { pairs.push((rng.below(i as u64) as usize, i)); } }
	while pairs.len() < n_chan { let a = rng.below(n as u64) as usize; let b = rng.below(n as u64) as usize; if a != b { pairs.push((a, b)); } }
	for (a, b) in pairs {
		let (one, two) = if w.ids[a] < w.ids[b] { (a, b) } else { (b, a) };
		let cap_sats: Option<u64> = if profile == 0 || (profile == 1 && rng.chance(7, 10)) { match rng.below(3) { 0 => None, 1 => Some((amt_hint / 1000 + 1).saturating_mul(rng.range(1, 10))), _ => Some(rng.range(amt_hint / 1000 + 1, 20_000_000 + amt_hint / 1000 + 1)) } }
			else { match rng.below(4) { 0 => None, 1 => Some(near(rng, amt_hint / 1000 + 1).max(1)), 2 => Some(rng.range(1, 4 * (amt_hint / 1000 + 1))), _ => Some(rng.range(1, 20_000_000)) } };
		let id = scid; scid += 1;
		let ok = match rng.below(3) {
			0 => ng.add_channel_from_partial_announcement(id, cap_sats, 0, ChannelFeatures::empty(), w.ids[one], w.ids[two]).is_ok(),
			_ => {
				let msg = UnsignedChannelAnnouncement { features: ChannelFeatures::empty(), chain_hash: chain, short_channel_id: id, node_id_1: w.ids[one], node_id_2: w.ids[two],
					bitcoin_key_1: w.ids[(one + 1) % w.ids.len()], bitcoin_key_2: w.ids[(two + 2) % w.ids.len()], excess_data: vec![] };
				if msg.bitcoin_key_1 == msg.bitcoin_key_2 { false } else {
					match cap_sats {
						Some(c) => {
							let script = make_funding_redeemscript(&w.pks[(one + 1) % w.pks.len()], &w.pks[(two + 2) % w.pks.len()]).to_p2wsh();
							let stub = Stub(Ok(TxOut { value: Amount::from_sat(c), script_pubkey: script }));
							ng.update_channel_from_unsigned_announcement(&msg, &Some(&stub)).is_ok()
						},
						None => ng.update_channel_from_unsigned_announcement(&msg, &None::<&Stub>).is_ok(),
					}
				}
			},
		};
		if !ok { continue; }
		let cap_msat = cap_sats.map(|c| c * 1000);
		for dir in 0..2u8 {
			// per-direction policy: `hostile` draws limits/fees around the amount and at the extremes,
			// `benign` draws an ordinary well-provisioned channel
			let hostile = match profile { 0 => false, 1 => rng.chance(3, 10), _ => true };
			if rng.chance(if hostile { 10 } else { 3 }, 100) { continue; } // missing update for this direction
			let disabled = rng.chance(if hostile { 10 } else { 3 }, 100);
			let (hmax_raw, hmin, base, prop, cltv);
			if hostile {
				hmax_raw = match rng.below(5) { 0 => near(rng, amt_hint), 1 => rng.range(1, 2 * amt_hint + 1), 2 => cap_msat.unwrap_or(amt_hint.saturating_mul(3)), 3 => near(rng, amt_hint / 2 + 1), _ => rng.range(1, 20_000_000_000) };
				hmin = match rng.below(8) { 0 => 0, 1 => 1, 2 => near(rng, amt_hint), 3 => amt_hint + rng.below(amt_hint / 10 + 2), 4 => rng.below(amt_hint + 1), 5 => near(rng, amt_hint / 2 + 1), _ => rng.below(1000) };
				base = match rng.below(6) { 0 => 0, 1 => 1, 2 => rng.below(2000), 3 => 1000, 4 => rng.below(amt_hint.min(u32::MAX as u64) + 1), _ => if rng.chance(1, 8) { u32::MAX as u64 } else { rng.below(50_000) } };
				prop = match rng.below(6) { 0 => 0, 1 => 1, 2 => rng.below(5000), 3 => 100, 4 => rng.below(1_000_001), _ => if rng.chance(1, 8) { u32::MAX as u64 } else { rng.below(100_000) } };
				cltv = match rng.below(5) { 0 => 0, 1 => 40, 2 => rng.below(200), 3 => 144, _ => if rng.chance(1, 10) { 65535 } else { rng.below(80) } };
			} else {
				hmax_raw = match rng.below(4) { 0 => cap_msat.unwrap_or(amt_hint.saturating_mul(4)), 1 => amt_hint.saturating_mul(rng.range(1, 8)), 2 => rng.range(amt_hint / 3 + 1, 2 * amt_hint + 1), _ => amt_hint.saturating_mul(50) };
				hmin = match rng.below(6) { 0 => 0, 1 => 1, 2 => rng.below(1000).min(amt_hint), 3 => rng.below(amt_hint / 2 + 1), 4 => near(rng, amt_hint / 3 + 1), _ => 1000.min(amt_hint) };
				base = match rng.below(4) { 0 => 0, 1 => 1000, 2 => rng.below(2000), _ => 1 };
				prop = match rng.below(5) { 0 => 0, 1 => 1, 2 => 100, 3 => rng.below(5000), _ => rng.below(50_000) };
				cltv = match rng.below(4) { 0 => 40, 1 => 18, 2 => rng.below(80), _ => 34 };
			}
			let hmax = match cap_msat { Some(c) => hmax_raw.min(c), None => hmax_raw }.max(1);
			let upd = UnsignedChannelUpdate { chain_hash: chain, short_channel_id: id, timestamp: 2, message_flags: 1, channel_flags: dir | ((disabled as u8) << 1),
				cltv_expiry_delta: cltv as u16, htlc_minimum_msat: hmin, htlc_maximum_msat: hmax, fee_base_msat: base as u32, fee_proportional_millionths: prop as u32, excess_data: vec![] };
			let _ = ng.update_channel_unsigned(&upd);
		}
	}
	ng
}

/// payer = node 0, payee = node 1, joined by np+1 … np+3 parallel zero-fee channels whose htlc_maximum is ⌊v/np⌋, ⌈v/np⌉ or
/// one off, plus a few 2-hop detours of the same width through the other nodes.
fn build_fan_graph(rng: &mut Rng, w: &World, n: usize, chain: ChainHash, v: u64, np: u8) -> Graph {
	let ng: Graph = NetworkGraph::new(Network::Testnet, &LOGGER);
	let k = np as u64 + rng.range(1, 3);
	let floor = v / np as u64; let ceil = (v + np as u64 - 1) / np as u64;
	let mode = rng.below(4);
	let mut scid = 1u64;
	let mut add = |a: usize, b: usize, hmax: u64, rng: &mut Rng| {
		let (one, two) = if w.ids[a] < w.ids[b] { (a, b) } else { (b, a) };
		let id = scid; scid += 1;
		if ng.add_channel_from_partial_announcement(id, None, 0, ChannelFeatures::empty(), w.ids[one], w.ids[two]).is_err() { return; }
		for dir in 0..2u8 {
			let upd = UnsignedChannelUpdate { chain_hash: chain, short_channel_id: id, timestamp: 2, message_flags: 1, channel_flags: dir,
				cltv_expiry_delta: 18 + rng.below(3) as u16, htlc_minimum_msat: 0, htlc_maximum_msat: hmax.max(1), fee_base_msat: 0, fee_proportional_millionths: 0, excess_data: vec![] };
			let _ = ng.update_channel_unsigned(&upd);
		}
	};
	for i in 0..k {
		let hmax = match mode { 0 => floor, 1 => ceil, 2 => if i % 2 == 0 { floor } else { ceil }, _ => near(rng, floor).max(1) };
		if i < k - 1 || n < 3 || rng.chance(1, 2) { add(0, 1, hmax, rng); } else { let mid = 2 + rng.below(n as u64 - 2) as usize; add(0, mid, hmax, rng); add(mid, 1, hmax, rng); }
	}
	ng
}

fn dump_graph(ng: &Graph, w: &World) -> Vec<Chan> {
	let ro = ng.read_only();
	let mut out = vec![];
	let mut scids: Vec<u64> = ro.channels().unordered_iter().map(|(k, _)| *k).collect();
	scids.sort();
	for scid in scids {
		let ci = ro.channels().get(&scid).unwrap();
		let (a, b) = (w.index[&ci.node_one], w.index[&ci.node_two]);
		let cap = ci.capacity_sats.map(|c| c * 1000);
		if let Some(u) = &ci.one_to_two { out.push(Chan { scid, src: a, dst: b, enabled: u.enabled, hmin: u.htlc_minimum_msat, hmax: u.htlc_maximum_msat, cap, base: u.fees.base_msat as u64, prop: u.fees.proportional_millionths as u64, cltv: u.cltv_expiry_delta as u64 }); }
		if let Some(u) = &ci.two_to_one { out.push(Chan { scid, src: b, dst: a, enabled: u.enabled, hmin: u.htlc_minimum_msat, hmax: u.htlc_maximum_msat, cap, base: u.fees.base_msat as u64, prop: u.fees.proportional_millionths as u64, cltv: u.cltv_expiry_delta as u64 }); }
	}
	out
}

fn to_hops(route: &Route, w: &World) -> Vec<Vec<Hop>> {
	route.paths.iter().map(|p| p.hops.iter().map(|h| Hop { scid: h.short_channel_id, node: w.index[&NodeId::from_pubkey(&h.pubkey)], fee: h.fee_msat, cltv: h.cltv_expiry_delta as u64 }).collect()).collect()
}

/// Conservative completeness double-check (Rust only): a path whose every hop can carry `mult` times an
/// upper bound of ANY amount a simple path could accumulate (amount + worst-case fees), with minimums
/// at most the bare amount, short enough and with CLTV limits that cannot bind.
fn ample_path_exists(g: &[Chan], q: &Req, n_nodes: usize, mult: u128) -> bool { ample_path(g, q, n_nodes, mult).is_some() }

/// Returns a concrete payer→payee path over ample edges, after re-verifying on THAT path, with the fees
/// accumulated hop by hop (payee → payer, the payer's own channel is free), that every hop amount lies
/// within [htlc_minimum, min(htlc_maximum, capacity)], and that length and total CLTV are within the limits.
fn ample_path(g: &[Chan], q: &Req, n_nodes: usize, mult: u128) -> Option<Vec<Chan>> {
	let usable_all: Vec<&Chan> = g.iter().filter(|c| c.enabled && !q.excluded.contains(&c.scid) && lookup(g, c.scid, c.dst, c.src).is_some()).collect();
	let maxbase = usable_all.iter().map(|c| c.base as u128).max().unwrap_or(0);
	let maxprop = usable_all.iter().map(|c| c.prop as u128).max().unwrap_or(0);
	let maxcltv_delta = usable_all.iter().map(|c| c.cltv).max().unwrap_or(0);
	let hops = (n_nodes as u64).saturating_sub(1);
	if hops > q.maxlen.min(19) { return None; }
	let internal_cltv = { let room = q.maxcltv.saturating_sub(q.finalcltv); let r = if room >= 80 { room - 80 } else { room }; r.min(u16::MAX as u64) };
	if q.maxcltv <= q.finalcltv || hops * maxcltv_delta > internal_cltv { return None; }
	if q.maxfee.is_some() { return None; }
	let mut bound = 3 * q.amt as u128; // the router may search with 3x the value (recommended_value_msat)
	for _ in 0..hops { bound = bound + maxbase + (bound * maxprop + 999_999) / 1_000_000 + 1; if bound > (1u128 << 62) { return None; } }
	let need = bound * mult;
	let ok = |c: &Chan| usable(g, q, c) && (c.limit() as u128) >= need;
	// BFS with parents
	let mut parent: HashMap<usize, Chan> = HashMap::new();
	let mut seen: HashSet<usize> = HashSet::new();
	seen.insert(q.payer);
	let mut frontier = vec![q.payer];
	while !frontier.is_empty() && !seen.contains(&q.payee) {
		let mut next = vec![];
		for c in g { if ok(c) && frontier.contains(&c.src) && !seen.contains(&c.dst) { seen.insert(c.dst); parent.insert(c.dst, c.clone()); next.push(c.dst); } }
		frontier = next;
	}
	if !seen.contains(&q.payee) { return None; }
	let mut path = vec![];
	let mut at = q.payee;
	while at != q.payer { let c = parent.get(&at)?.clone(); at = c.src; path.push(c); if path.len() > n_nodes { return None; } }
	path.reverse();
	// exact re-verification with accumulated fees
	if path.len() as u64 > q.maxlen.min(19) { return None; }
	let cltv: u64 = path[1..].iter().map(|c| c.cltv).sum::<u64>() + q.finalcltv;
	if cltv > q.maxcltv || path[1..].iter().map(|c| c.cltv).sum::<u64>() > internal_cltv { return None; }
	let mut amt = q.amt as u128;
	for i in (0..path.len()).rev() {
		let c = &path[i];
		if amt < c.hmin as u128 || amt > c.limit() as u128 { return None; }
		if i > 0 { amt += policy_fee(c, amt)?; }
	}
	Some(path)
}

fn router_model(args: &Args) {
	let mut rec = Rec::new(&args.out, "c16router");
	let mut rng = Rng::new(args.seed ^ 0x0c16);
	let secp = Secp256k1::new();
	let nmax = 40usize;
	let mut pks = vec![];
	for i in 0..nmax { let mut sk = [0u8; 32]; sk[31] = (i + 1) as u8; sk[0] = 0x42; pks.push(PublicKey::from_secret_key(&secp, &SecretKey::from_slice(&sk).unwrap())); }
	let ids: Vec<NodeId> = pks.iter().map(|p| NodeId::from_pubkey(p)).collect();
	let index: HashMap<NodeId, usize> = ids.iter().enumerate().map(|(i, id)| (*id, i)).collect();
	let w = World { pks, ids, index };
	let chain = ChainHash::using_genesis_block(Network::Testnet);
	let n_graphs = if args.thorough { 8000 } else { 1500 } * args.scale;
	let per_graph = if args.thorough { 14 } else { 10 };
	let (mut n_ok, mut n_err, mut n_panic, mut n_multi, mut n_raise) = (0u64, 0u64, 0u64, 0u64, 0u64);
	let mut debug_asserts: std::collections::BTreeMap<String, (u64, String)> = std::collections::BTreeMap::new();
	for _ in 0..n_graphs {
		let n = match rng.below(10) { 0..=5 => rng.range(4, 9), 6..=8 => rng.range(10, 20), _ => rng.range(21, 40) } as usize;
		let amt_hint = match rng.below(6) { 0 => rng.range(1, 20), 1 => rng.range(1000, 100_000), 2 => 1000 * rng.range(1, 1_000_000), 3 => rng.range(1, 5_000_000_000), _ => rng.range(10_000, 50_000_000) };
		let profile = match rng.below(10) { 0..=3 => 0, 4..=7 => 1, _ => 2 };
		// fan family: k parallel payer–payee channels whose limit sits at ⌊V/np⌋ / ⌈V/np⌉ (±1) with k > np: the
		// fragmentation bound (a route has at most max_path_count paths) is tight exactly there
		let fan: Option<(u64, u8)> = if rng.chance(1, 8) { let np = rng.range(2, 6) as u8; let v = rng.range(np as u64 * 3, 200_000) * if rng.chance(1, 2) { 1 } else { 1000 } + rng.range(1, np as u64 - 1); Some((v, np)) } else { None };
		let ng = match fan { Some((v, np)) => build_fan_graph(&mut rng, &w, n, chain, v, np), None => build_graph(&mut rng, &w, n, amt_hint, chain, profile) };
		let g = dump_graph(&ng, &w);
		if g.is_empty() { rec.discarded += 1; continue; }
		let gs = graph_str(&g);
		let prob_scorer = ProbabilisticScorer::new(ProbabilisticScoringDecayParameters::default(), &ng, &LOGGER);
		let prob_params = ProbabilisticScoringFeeParameters::default();
		for _ in 0..per_graph {
			let payer = rng.below(n as u64) as usize;
			let mut payee = rng.below(n as u64) as usize;
			if payee == payer { payee = (payer + 1) % n; }
			let amt = match rng.below(8) {
				0 => if rng.chance(1, 3) { 1 } else { rng.range(1, amt_hint.max(1)) }, 1 => near(&mut rng, amt_hint).max(1), 2 => rng.range(1, amt_hint.max(1)), 3 => { let c = rng.pick(&g); near(&mut rng, c.limit()).max(1) },
				4 => { let c = rng.pick(&g); near(&mut rng, c.hmin).max(1) }, 5 => amt_hint.saturating_mul(rng.range(2, 6)), 6 => g.iter().map(|c| c.limit()).max().unwrap_or(1).saturating_add(rng.below(3)), _ => amt_hint.max(1),
			}.min(2_000_000_000_000_000);
			let plain = rng.chance(1, 2); // ordinary request: default limits
			let finalcltv = *rng.pick(&[0u32, 18, 40, 144]);
			let mpp = rng.chance(1, 2);
			let mut pp = if mpp { PaymentParameters::for_keysend(w.pks[payee], finalcltv, true) } else { PaymentParameters::from_node_id(w.pks[payee], finalcltv) };
			pp.max_path_count = match rng.below(5) { 0 => 1, 1 => 2, 2 => rng.range(1, 10) as u8, _ => 10 };
			if !plain {
				pp.max_total_cltv_expiry_delta = match rng.below(5) { 0 => finalcltv + rng.below(300) as u32, 1 => 1_000_000, 2 => finalcltv + 1 + rng.below(120) as u32, _ => 1008 };
				pp.max_path_length = match rng.below(5) { 0 => rng.range(1, 4) as u8, 1 => rng.range(1, 19) as u8, _ => 19 };
			}
			pp.max_channel_saturation_power_of_half = match rng.below(4) { 0 => 0, 1 => rng.below(4) as u8, _ => 2 };
			if !plain && rng.chance(1, 4) { for _ in 0..rng.range(1, 3) { pp.previously_failed_channels.push(rng.pick(&g).scid); } }
			let maxfee = if plain { if rng.chance(1, 2) { None } else { Some(amt / 100 + 50_000) } } else { match rng.below(6) { 0 => None, 1 => Some(rng.below(2000)), 2 => Some(amt / 100 + 50_000), 3 => Some(rng.below(amt / 10 + 10)), 4 => Some(0), _ => None } };
			let (payer, payee, amt, mpp, pp, maxfee) = match fan {
				Some((v, np)) if rng.chance(3, 4) => {
					let mut fp = PaymentParameters::for_keysend(w.pks[1], finalcltv, true);
					fp.max_path_count = if rng.chance(4, 5) { np } else { np + 1 };
					fp.max_channel_saturation_power_of_half = 0;
					(0usize, 1usize, if rng.chance(3, 4) { v } else { near(&mut rng, v).max(1) }, true, fp, None)
				},
				_ => (payer, payee, amt, mpp, pp, maxfee),
			};
			let params = RouteParameters { payment_params: pp.clone(), final_value_msat: amt, max_total_routing_fee_msat: maxfee };
			let seed_bytes = [rng.next() as u8; 32];
			let scorer_kind = rng.below(3);
			let q = Req { payer, payee, amt, maxfee, maxcltv: pp.max_total_cltv_expiry_delta as u64, maxpaths: pp.max_path_count as u64, maxlen: pp.max_path_length as u64, finalcltv: finalcltv as u64, excluded: pp.previously_failed_channels.clone(), mpp, satpow: pp.max_channel_saturation_power_of_half, scorer: scorer_kind, seed0: seed_bytes[0] };
			let res = guarded(AssertUnwindSafe(|| match scorer_kind {
				0 => find_route(&w.pks[payer], &params, &ng, None, &LOGGER, &prob_scorer, &prob_params, &seed_bytes),
				1 => find_route(&w.pks[payer], &params, &ng, None, &LOGGER, &FixedPenaltyScorer::with_penalty(0), &(), &seed_bytes),
				_ => find_route(&w.pks[payer], &params, &ng, None, &LOGGER, &FixedPenaltyScorer::with_penalty(rng_penalty(seed_bytes[0])), &(), &seed_bytes),
			}));
			match res {
				Err(p) => {
					n_panic += 1;
					let at = LAST_PANIC_AT.lock().unwrap().clone();
					let p1 = p.replace('\n', " ");
					// The router's own debug assertions (this harness, like the crate's tests, builds with debug
					// assertions) are not clauses of C16 ("every route the router RETURNS …"): no route is
					// returned. Counted as discarded cases, reported in the notes with one example input each.
					// Only the two assertions observed on the unchanged tree are discarded (DESIGN 9.3, observations); any other router
					// assertion — e.g. `paths.len() <= max_path_count`, which states a clause of C16 about the route that a release
					// build WOULD return — is a failure with the request as the failing input.
					let own_assert = at.starts_with("router.rs") && (p1.contains("assertion failed: false") || p1.contains("Paths should always send more than 0 msat"));
					if own_assert {
						rec.discarded += 1;
						let key = format!("{} at {}", if p1.len() > 80 { &p1[..80] } else { &p1[..] }, at);
						let e = debug_asserts.entry(key).or_insert((0u64, String::new()));
						e.0 += 1;
						if e.1.is_empty() { e.1 = format!("noroute {} {}", req_str(&q), gs); }
						*rec.classes.entry("find_route:own-debug-assert(discarded)".into()).or_insert(0) += 1;
					} else {
						rec.oracle_fail(format!("find_route panicked ({} at {}) on: noroute {} {}", p1, at, req_str(&q), gs));
						*rec.classes.entry("find_route:panic".into()).or_insert(0) += 1;
					}
				},
				Ok(Ok(route)) => {
					n_ok += 1;
					let r = to_hops(&route, &w);
					if r.len() > 1 { n_multi += 1; }
					let op = format!("route {} {} {}", req_str(&q), gs, route_str(&r));
					let verdict = match recheck(&g, &q, &r) {
						Ok(()) => "valid".to_string(),
						Err((clause, detail)) => {
							let tag = if clause == "chain" && detail.contains("is paid") && final_raise_signature(&g, &q, &r, &detail) { "KF-C16-1 final-hop raised to htlc_minimum, upstream fee computed without the raise: " }
								else if clause == "capacity" && r.iter().enumerate().any(|(i, _)| final_raise_signature(&g, &q, &r, &format!("path {} ", i))) { "KF-C16-6 htlc_maximum exceeded after raises to htlc_minimum (final-hop raise not propagated upstream, no re-check): " } else { "" };
							rec.oracle_fail(format!("{}find_route returned a route violating clause `{}`: {} | {}", tag, clause, detail, op)); format!("invalid {}", clause) },
					};
					// classify: shape of the route and whether a raise to a minimum is visible
					let mut raised = false;
					for p in &r { let mut src = q.payer; let mut acc: Vec<u64> = vec![0; p.len()]; let mut s = 0u64; for i in (0..p.len()).rev() { s = s.saturating_add(p[i].fee); acc[i] = s; }
						for (i, h) in p.iter().enumerate() { if let Some(c) = lookup(&g, h.scid, src, h.node) { if acc[i] == c.hmin && c.hmin > 1 { raised = true; } } src = h.node; } }
					if raised { n_raise += 1; }
					let over = r.iter().map(|p| p.last().unwrap().fee as u128).sum::<u128>() > amt as u128;
					let class = format!("route:{}{}{}{}", if r.len() > 1 { "mpp" } else { "single" }, match r.iter().map(|p| p.len()).max().unwrap_or(0) { 1 => "/direct", 2 | 3 => "/2-3hops", _ => "/4+hops" }, if raised { "/at-minimum" } else { "" }, if over { "/overpays" } else { "" });
					rec.case(&op, &format!("{} recur={}", verdict, recur_claim(&g, &q, &r)), &class, true);
				},
				Ok(Err(e)) => {
					n_err += 1;
					let found = reference(&g, &q, &|c: &Chan| usable(&g, &q, c));
					let op = format!("noroute {} {}", req_str(&q), gs);
					let class;
					if found {
						let mult = if q.maxpaths > 1 && mpp { 2 } else { 1 };
						if let Some(path) = ample_path(&g, &q, n, mult) {
							let path_s: String = path.iter().map(|c| format!(" {}:{}->{}", c.scid, c.src, c.dst)).collect();
							let e = format!("{}; sufficient path (scid:src->dst){}", e, path_s);
							class = "noroute:ref-found,ample(FLAGGED)".to_string();
							rec.oracle_fail(format!("KF-C16-5 router reports failure although a sufficient single path exists: find_route failed (\"{}\") although a single path with ample limits exists and fee/CLTV/length limits cannot bind | {}", e, op));
						} else { class = "noroute:ref-found,not-confirmed(limits may bind)".to_string(); }
					} else { class = format!("noroute:ref-none/{}", if e.contains("sufficient") { "insufficient" } else if e.contains("find a path") { "no-path" } else { "other" }); }
					rec.case(&op, if found { "ref=found" } else { "ref=none" }, &class, true);
				},
			}
		}
	}
	rec.notes.insert("rule".into(), format!("random NetworkGraphs (4–40 nodes, parallel channels, unknown/known capacities via UTXO stub or partial announcement, zero/extreme fees, disabled directions, missing updates, htlc min/max around the amount), {} requests each (amount 1 msat … beyond capacity; max fee / CLTV / path count / path length / saturation / excluded channels varied; ProbabilisticScorer or fixed penalty); graph dumped from NetworkGraph::read_only(); every case distinct by op text. routes={} (mpp {} / with a hop at its minimum {}), router errors={}, panics={}. v1: no first hops, route hints or blinded paths", per_graph, n_ok, n_multi, n_raise, n_err, n_panic));
	for (i, (k, (n, ex))) in debug_asserts.iter().enumerate() {
		rec.notes.insert(format!("debug_assert_{}", i + 1), format!("find_route hit its own debug assertion: {}, {} times (discarded, not a C16 clause); example input: {}", k, n, if ex.len() > 1500 { &ex[..1500] } else { &ex[..] }));
	}
	rec.finish();
}

fn near(rng: &mut Rng, c: u64) -> u64 { let d = rng.below(5); c.saturating_add(d).saturating_sub(2) }

struct PrintLogger;
impl lightning::util::logger::Logger for PrintLogger { fn log(&self, r: lightning::util::logger::Record) { if r.module_path.contains("router") { eprintln!("  [{:?}] {}", r.level, r.args); } } }
static PRINT: PrintLogger = PrintLogger;

/// `c16 c16replay --replay FILE`: re-run the real router on `route` / `noroute` op lines (graph rebuilt
/// from the line through partial announcements + unsigned updates) with the router's log on stderr.
fn replay_model(args: &Args) {
	let file = args.replay.as_ref().expect("--replay FILE");
	let secp = Secp256k1::new();
	let mut pks = vec![];
	for i in 0..40usize { let mut sk = [0u8; 32]; sk[31] = (i + 1) as u8; sk[0] = 0x42; pks.push(PublicKey::from_secret_key(&secp, &SecretKey::from_slice(&sk).unwrap())); }
	let ids: Vec<NodeId> = pks.iter().map(|p| NodeId::from_pubkey(p)).collect();
	let index: HashMap<NodeId, usize> = ids.iter().enumerate().map(|(i, id)| (*id, i)).collect();
	let w = World { pks, ids, index };
	let chain = ChainHash::using_genesis_block(Network::Testnet);
	for line in std::fs::read_to_string(file).unwrap().lines() {
		let ws: Vec<&str> = line.split_whitespace().collect();
		if ws.len() < 16 || (ws[0] != "route" && ws[0] != "noroute") { continue; }
		let num = |s: &str| s.parse::<u64>().unwrap();
		let (payer, payee, amt) = (num(ws[1]) as usize, num(ws[2]) as usize, num(ws[3]));
		let maxfee = if ws[4] == "-" { None } else { Some(num(ws[4])) };
		let (maxcltv, maxpaths, maxlen, finalcltv, mpp, satpow, scorer, seed0) = (num(ws[5]), num(ws[6]), num(ws[7]), num(ws[8]), ws[9] == "1", num(ws[10]), num(ws[11]), num(ws[12]) as u8);
		let nx = num(ws[14]) as usize;
		let excluded: Vec<u64> = ws[15..15 + nx].iter().map(|s| num(s)).collect();
		let gi = 15 + nx; assert_eq!(ws[gi], "G");
		let nc = num(ws[gi + 1]) as usize;
		let ng: NetworkGraph<&'static PrintLogger> = NetworkGraph::new(Network::Testnet, &PRINT);
		let mut g = vec![];
		for k in 0..nc {
			let c = &ws[gi + 2 + 10 * k..gi + 12 + 10 * k];
			let ch = Chan { scid: num(c[0]), src: num(c[1]) as usize, dst: num(c[2]) as usize, enabled: c[3] == "1", hmin: num(c[4]), hmax: num(c[5]), cap: if c[6] == "-" { None } else { Some(num(c[6])) }, base: num(c[7]), prop: num(c[8]), cltv: num(c[9]) };
			let (one, two) = if w.ids[ch.src] < w.ids[ch.dst] { (ch.src, ch.dst) } else { (ch.dst, ch.src) };
			let _ = ng.add_channel_from_partial_announcement(ch.scid, ch.cap.map(|m| m / 1000), 0, ChannelFeatures::empty(), w.ids[one], w.ids[two]);
			let dir = if ch.src == one { 0u8 } else { 1u8 };
			let upd = UnsignedChannelUpdate { chain_hash: chain, short_channel_id: ch.scid, timestamp: 2, message_flags: 1, channel_flags: dir | ((!ch.enabled as u8) << 1), cltv_expiry_delta: ch.cltv as u16,
				htlc_minimum_msat: ch.hmin, htlc_maximum_msat: ch.hmax, fee_base_msat: ch.base as u32, fee_proportional_millionths: ch.prop as u32, excess_data: vec![] };
			ng.update_channel_unsigned(&upd).unwrap();
			g.push(ch);
		}
		let mut pp = if mpp { PaymentParameters::for_keysend(w.pks[payee], finalcltv as u32, true) } else { PaymentParameters::from_node_id(w.pks[payee], finalcltv as u32) };
		pp.max_path_count = maxpaths as u8; pp.max_total_cltv_expiry_delta = maxcltv as u32; pp.max_path_length = maxlen as u8; pp.max_channel_saturation_power_of_half = satpow as u8; pp.previously_failed_channels = excluded.clone();
		let params = RouteParameters { payment_params: pp, final_value_msat: amt, max_total_routing_fee_msat: maxfee };
		let q = Req { payer, payee, amt, maxfee, maxcltv, maxpaths, maxlen, finalcltv, excluded, mpp, satpow: satpow as u8, scorer, seed0 };
		let seed_bytes = [seed0; 32];
		eprintln!("=== replay {} {} ...", ws[0], req_str(&q));
		let res = guarded(AssertUnwindSafe(|| match scorer {
			0 => find_route(&w.pks[payer], &params, &ng, None, &PRINT, &ProbabilisticScorer::new(ProbabilisticScoringDecayParameters::default(), &ng, &PRINT), &ProbabilisticScoringFeeParameters::default(), &seed_bytes),
			1 => find_route(&w.pks[payer], &params, &ng, None, &PRINT, &FixedPenaltyScorer::with_penalty(0), &(), &seed_bytes),
			_ => find_route(&w.pks[payer], &params, &ng, None, &PRINT, &FixedPenaltyScorer::with_penalty(rng_penalty(seed0)), &(), &seed_bytes),
		}));
		match res {
			Err(p) => println!("panic {}", p),
			Ok(Err(e)) => println!("err {} (reference: {}, ample: {})", e, if reference(&g, &q, &|c: &Chan| usable(&g, &q, c)) { "found" } else { "none" }, ample_path_exists(&g, &q, 1 + g.iter().map(|c| c.src.max(c.dst)).max().unwrap_or(0), if q.maxpaths > 1 && q.mpp { 2 } else { 1 })),
			Ok(Ok(route)) => { let r = to_hops(&route, &w); println!("{} -> {:?}", route_str(&r), recheck(&g, &q, &r)); },
		}
	}
}

fn rng_penalty(b: u8) -> u64 { match b % 4 { 0 => 1, 1 => 500, 2 => 100_000, _ => 10_000_000 } }

fn main() {
	let args = &parse_args("c16fees");
	std::panic::set_hook(Box::new(|info| { if let Some(l) = info.location() { *LAST_PANIC_AT.lock().unwrap() = format!("{}:{}", l.file().rsplit('/').next().unwrap_or(""), l.line()); } }));
	match args.model.as_str() {
		"c16fees" => fees_model(args),
		"c16router" => router_model(args),
		"c16replay" => replay_model(args),
		m => { eprintln!("unknown model {}", m); std::process::exit(2); },
	}
}
