//! C16 — routes returned by the real router are valid for the graph and the caller's constraints.
//!
//! model `c16fees`  (hooks `lightning::ln::verif_hooks::router`):
//!   fees <amt> <base> <prop>                      compute_fees            -> some <n> | none
//!   feessat <amt> <base> <prop>                   compute_fees_saturating -> <n>
//!   maxhtlc <kind> <a> <b> <shift>                max_htlc_from_capacity  -> <n>
//!   recompute <value> <n> (<base> <prop> <min>)*  PaymentPath::update_value_and_recompute_fees on a
//!                                                 synthetic path -> ok <ret> <fee_msat>* | panic
//!   maxfinal <pow> <n> (<base> <prop> <max|-> <used>)*  PaymentPath::max_final_value_msat on a synthetic path of
//!                                                 private-hop candidates -> ok <idx> <value> | err <idx> | panic
//! model `c16router` (public `find_route` on random `NetworkGraph`s built from unsigned announcements
//! / partial announcements and unsigned channel updates; v2: first hops, route hints, blinded tails, fed scorer, in-flight HTLCs):
//!   route <req> X <k> <scid>* B <k> <idx>* G <n> <chan>* R <k> (<nhops> (<scid> <node> <fee_msat> <cltv> <blinded>)*)*
//!        impl answer: the harness's own re-check of the property's clauses on the real route
//!        (`valid` / `invalid <clause>`) and `recur=eq|skip` (claim: the path's fee_msats are what the
//!        fee recurrence yields for the delivered value); the Lean driver answers with the verified
//!        checker `routeValid` and its own run of the recurrence.
//!   noroute <req> X <k> <scid>* B <k> <idx>* G <n> <chan>*   router returned Err -> ref=found|ref=none (reference
//!        single-path reachability over the same candidate kinds, same definition on both sides)
//!   matchscid <alias|-> <scid|-> <hint_scid>      the property's reading (alias OR real scid) against the generated
//!                                                 `matches_an_scid` of get_route step (1) -> 0|1
//!   <req>  = <payer> <payee> <amt> <maxfee|-> <maxcltv> <maxpaths> <maxlen> <finalcltv> <hasfirst> <mpp> <satpow> <scorer> <seed>
//!            (the last four only make a line replayable: `c16 c16replay --replay FILE`; the model ignores them;
//!             scorer 3 = fed ProbabilisticScorer, +10 = InFlightHtlcs — neither is reproduced by the replay)
//!   <chan> = <kind> <scid> - <src> <dst> <enabled> <htlcmin> <htlcmax|-> <cap_msat|-> <base> <prop> <cltv>   RAW data of one candidate;
//!            kind p PublicHop, h PrivateHop (hint hop), b Blinded / o OneHopBlinded (scid = index of the blinded path, dst = 999);
//!            a FirstHop gives the raw ChannelDetails ids: f <outbound_scid_alias|-> <short_channel_id|-> <payer> <peer> <is_usable>
//!            <next_outbound_htlc_minimum_msat> <next_outbound_htlc_limit_msat> <counterparty.outbound_htlc_minimum_msat|-> 0 0 0
//!            (C16-r5: the counterparty's STATIC minimum is a decoy <= the current minimum; the other decoy fields of the ChannelDetails —
//!             counterparty.outbound_htlc_maximum_msat, outbound_capacity_msat, channel_value_satoshis, inbound_capacity_msat — are pure
//!             functions of the limit, see `channel_details`; the Lean driver rebuilds the same record, `detailsOf`)
//!   pubcap <htlc_maximum_msat> <capacity_sats|->   the REAL DirectedChannelInfo::effective_capacity of a channel direction of the graph and
//!        max_htlc_from_capacity(…, 0) of it -> total <cap> <max> | adv <max>, then `max <n>`; the Lean driver answers from the TRANSLATED function
//!   (C16-r5b) scorer 20 on a route line = the route came from build_route_from_hops along the nodes of the route found just before (not replayable);
//!        guard probes (`guard_cases`), the raw-search comparison of add_random_cltv_offset (`cltv_offset_check`, hook get_route_raw) are impl-side only
//!   firsthop <next_min> <next_limit> <cp_min|-> <cp_max|-> <outbound_capacity> <inbound_capacity> <value_sat> <in_min|-> <in_max|-> <announced> <scid|-> <alias|->
//!        the accessors of the CandidateRouteHop::FirstHop the router builds from this ChannelDetails (hook verif_hooks::router::
//!        first_hop_candidate_view) -> min <n> cap <exact n|other> scid <n|-> gscid <n|-> fees <b> <p> cltv <n>; the Lean driver answers from the
//!        TRANSLATED FirstHop arms (Generated/RouterFirstHop.lean); impl oracle: minimum / liquidity are the CURRENT ones of the ChannelDetails
//!   a BlindedTail is the last element of its path: <index of the blinded path> 999 <final_value_msat> 0 1
//! The public candidates on the line are dumped from `NetworkGraph::read_only()` (not from what the generator sent).
//! C16b: `PROBES` = deterministic minimal inputs of the known findings KF-C16-7 … 11 (and of the corrected false alarm FA-C16-7/A), run through
//! the real find_route at the start of every c16router run; a failure carries a stable id (KF7 … KF11) only when it shows that finding's
//! signature, and at most KF_CAP failures are reported per id and run. `parse_case` / `run_case` rebuild the router's inputs from an op line
//! (also used by `c16 c16replay --replay FILE`, which now accepts whole oracle messages: the line is searched for `route ` / `noroute `).
use bitcoin::amount::Amount;
use bitcoin::constants::ChainHash;
use bitcoin::secp256k1::{PublicKey, Secp256k1, SecretKey};
use bitcoin::{Network, TxOut};
use ldk_verif_harness::common::*;
use lightning::ln::chan_utils::make_funding_redeemscript;
use lightning::ln::msgs::{UnsignedChannelAnnouncement, UnsignedChannelUpdate};
use lightning::ln::verif_hooks::router as vr;
use lightning::routing::gossip::{EffectiveCapacity, NetworkGraph, NodeId};
use lightning::blinded_path::payment::{BlindedPayInfo, BlindedPaymentPath, Bolt12RefundContext, ForwardTlvs, PaymentConstraints, PaymentContext, PaymentForwardNode, PaymentRelay, ReceiveTlvs};
use lightning::blinded_path::BlindedHop;
use lightning::ln::channel_state::{ChannelCounterparty, ChannelDetails, ChannelShutdownState};
use lightning::ln::types::ChannelId;
use lightning::routing::gossip::RoutingFees;
use lightning::routing::router::{find_route, InFlightHtlcs, PaymentParameters, Route, RouteHint, RouteHintHop, RouteParameters, ScorerAccountingForInFlightHtlcs};
use lightning::routing::scoring::ScoreUpdate;
use lightning::sign::ReceiveAuthKey;
use lightning::types::features::{BlindedHopFeatures, Bolt12InvoiceFeatures, InitFeatures};
use lightning::types::payment::PaymentSecret;
use lightning::routing::scoring::{
	FixedPenaltyScorer, ProbabilisticScorer, ProbabilisticScoringDecayParameters,
	ProbabilisticScoringFeeParameters,
};
use lightning::routing::utxo::{UtxoLookup, UtxoLookupError, UtxoResult};
use lightning::types::features::ChannelFeatures;
use lightning::util::wakers::Notifier;
use std::collections::{HashMap, HashSet};
use std::panic::AssertUnwindSafe;
use std::sync::Arc;

static LOGGER: NullLogger = NullLogger;
/// source location of the last panic (filled by the panic hook installed in `main`)
static LAST_PANIC_AT: std::sync::Mutex<String> = std::sync::Mutex::new(String::new());
type Graph = NetworkGraph<&'static NullLogger>;

struct Stub(Result<TxOut, UtxoLookupError>);
impl UtxoLookup for Stub {
	fn get_utxo(&self, _c: &ChainHash, _scid: u64, _n: Arc<Notifier>) -> UtxoResult { UtxoResult::Sync(self.0.clone()) }
}

// ------------------------------------------------------------------------------------------------
// c16fees

fn fees_model(args: &Args) {
	let mut rec = Rec::new(&args.out, "c16fees");
	let mut rng = Rng::new(args.seed ^ 0xfee5);
	let n = if args.thorough { 60_000 } else { 4_000 } * args.scale;
	let u32s: Vec<u64> = vec![0, 1, 2, 999, 1000, 1_000_000, 999_999, 1_000_001, u32::MAX as u64, u32::MAX as u64 - 1];
	let pick_u32 = |rng: &mut Rng| -> u64 { match rng.below(4) { 0 => *rng.pick(&u32s), 1 => rng.below(5000), 2 => rng.below(1 << 20), _ => rng.next() & 0xffff_ffff } };
	let pick_amt = |rng: &mut Rng, prop: u64| -> u64 {
		match rng.below(7) {
			0 => rng.below(10),
			1 => rng.below(1 << 32),
			2 => rng.below(21_000_000 * 100_000_000 * 1000),
			3 => near(rng, u64::MAX / prop.max(1)),                 // product overflow boundary
			4 => u64::MAX - rng.below(3),
			5 => near(rng, (u64::MAX / prop.max(1)).saturating_mul(1)).saturating_add(rng.below(1_000_000)),
			_ => rng.next(),
		}
	};
	for _ in 0..n {
		let prop = pick_u32(&mut rng);
		let base = pick_u32(&mut rng);
		let amt = pick_amt(&mut rng, prop);
		let r = vr::compute_fees(amt, base as u32, prop as u32);
		// implementation-side oracle (no model): the closed form in 128-bit arithmetic
		let prod = amt as u128 * prop as u128;
		let want = if prod > u64::MAX as u128 { None } else { let s = base as u128 + prod / 1_000_000; if s > u64::MAX as u128 { None } else { Some(s as u64) } };
		if r != want { rec.oracle_fail(format!("compute_fees({}, base {}, prop {}) = {:?}, 128-bit arithmetic gives {:?}", amt, base, prop, r, want)); }
		let (res, class) = match r { Some(f) => (format!("some {}", f), "fees:some"), None => ("none".to_string(), "fees:none") };
		rec.case(&format!("fees {} {} {}", amt, base, prop), &res, class, true);
		let s = vr::compute_fees_saturating(amt, base as u32, prop as u32);
		if s != want.unwrap_or(u64::MAX) { rec.oracle_fail(format!("compute_fees_saturating({}, {}, {}) = {} but compute_fees = {:?}", amt, base, prop, s, want)); }
		rec.case(&format!("feessat {} {} {}", amt, base, prop), &s.to_string(), if s == u64::MAX { "feessat:max" } else { "feessat:value" }, true);
	}
	// max_htlc_from_capacity
	for _ in 0..n / 4 {
		let a = match rng.below(4) { 0 => rng.below(10), 1 => rng.below(1 << 40), 2 => u64::MAX - rng.below(2), _ => rng.next() };
		let b = match rng.below(4) { 0 => rng.below(10), 1 => rng.below(1 << 40), 2 => { let sh = rng.below(4); near(&mut rng, a >> sh) }, _ => rng.next() };
		let shift = match rng.below(4) { 0 => rng.below(4), 1 => rng.range(60, 70), 2 => rng.below(256), _ => 0 } as u8;
		let (kind, cap) = match rng.below(6) {
			0 => ("exact", EffectiveCapacity::ExactLiquidity { liquidity_msat: a }),
			1 => ("adv", EffectiveCapacity::AdvertisedMaxHTLC { amount_msat: a }),
			2 => ("total", EffectiveCapacity::Total { capacity_msat: a, htlc_maximum_msat: b }),
			3 => ("inf", EffectiveCapacity::Infinite),
			4 => ("hint", EffectiveCapacity::HintMaxHTLC { amount_msat: a }),
			_ => ("unknown", EffectiveCapacity::Unknown),
		};
		let r = vr::max_htlc_from_capacity(cap, shift);
		rec.case(&format!("maxhtlc {} {} {} {}", kind, a, b, shift), &r.to_string(), &format!("maxhtlc:{}", kind), true);
	}
	// the fee recurrence on synthetic paths
	for _ in 0..n / 2 {
		let len = match rng.below(8) { 0 => 1, 1 => 2, 7 => rng.range(9, 20), _ => rng.range(2, 8) } as usize;
		let huge = rng.chance(1, 12);
		let value = match rng.below(5) { 0 => rng.range(1, 10), 1 => rng.range(1, 100_000), 2 => rng.range(1, 1 << 40), 3 => 1000 * rng.range(1, 1000), _ => if huge { rng.range(1 << 44, 1 << 50) } else { rng.range(1, 1 << 32) } };
		let mut hops = vec![];
		for _ in 0..len {
			let base = match rng.below(4) { 0 => 0, 1 => rng.below(3), 2 => rng.below(5000), _ => if huge { pick_u32(&mut rng) } else { rng.below(100_000) } };
			let prop = match rng.below(5) { 0 => 0, 1 => rng.below(3), 2 => rng.below(5000), 3 => rng.below(1_000_001), _ => if huge { pick_u32(&mut rng) } else { rng.below(200_000) } };
			let min = match rng.below(6) { 0 => 0, 1 => 1, 2 => near(&mut rng, value), 3 => value + rng.below(value.min(1 << 20) + 1), 4 => rng.below(2 * value + 1), _ => if huge { rng.below(1 << 50) } else { rng.below(1000) } };
			hops.push((base as u32, prop as u32, min));
		}
		let r = guarded(AssertUnwindSafe(|| vr::update_value_and_recompute_fees(&hops, value)));
		let op = format!("recompute {} {}{}", value, len, hops.iter().map(|h| format!(" {} {} {}", h.0, h.1, h.2)).collect::<String>());
		match r {
			Err(_) => rec.case(&op, "panic", "recompute:panic(fee overflow)", true),
			Ok((fees, ret)) => {
				// impl-side oracle, independent of the model: minimums and fee margins on the route-level amounts
				let mut amts = vec![0u128; len];
				let mut acc = 0u128;
				for i in (0..len).rev() { acc += fees[i] as u128; amts[i] = acc; }
				let raise = ret - value;
				let mut class = if raise > 0 { "recompute:final-hop-raised" } else { "recompute:plain" };
				for i in 0..len {
					if amts[i] < hops[i].2 as u128 { rec.oracle_fail(format!("update_value_and_recompute_fees: hop {} carries {} < htlc_minimum {} ({})", i, amts[i], hops[i].2, op)); }
					if i + 1 < len {
						let fwd = amts[i + 1];
						let need = hops[i + 1].0 as u128 + fwd * hops[i + 1].1 as u128 / 1_000_000;
						if (fees[i] as u128) < need {
							let tag = if raise > 0 { "KF-C16-1 (function level) final-hop raised to htlc_minimum, upstream fee computed without the raise: " } else { "" };
							rec.oracle_fail(format!("{}update_value_and_recompute_fees: node before hop {} paid {} < policy fee {} ({})", tag, i + 1, fees[i], need, op));
						} else if i + 1 < len && amts[i + 1] == hops[i + 1].2 as u128 && (fees[i] as u128) > need && raise == 0 && class == "recompute:plain" { class = "recompute:intermediate-raise"; }
					}
				}
				if fees[len - 1] != ret { rec.oracle_fail(format!("update_value_and_recompute_fees: returned {} but last fee_msat {} ({})", ret, fees[len - 1], op)); }
				rec.case(&op, &format!("ok {}{}", ret, fees.iter().map(|f| format!(" {}", f)).collect::<String>()), class, true);
			},
		}
	}
	// PaymentPath::max_final_value_msat on synthetic paths of private-hop candidates (hook verif_hooks::router::max_final_value_msat)
	for _ in 0..n / 2 {
		let len = match rng.below(8) { 0 => 1, 1 => 2, 7 => rng.range(9, 19), _ => rng.range(2, 7) } as usize;
		let value = match rng.below(5) { 0 => rng.range(1, 20), 1 => rng.range(1, 100_000), 2 => rng.range(1, 1 << 40), 3 => 1000 * rng.range(1, 1000), _ => rng.range(1, 1 << 32) };
		let huge = rng.chance(1, 10);
		let pow = match rng.below(4) { 0 => rng.below(4), _ => 0 } as u8;
		let mut hops: Vec<(u32, u32, Option<u64>, u64)> = vec![];
		for _ in 0..len {
			let base = match rng.below(6) { 0 | 1 => 0, 2 => rng.below(3), 3 => rng.below(5000), 4 => rng.below(value.min(u32::MAX as u64) / 50 + 1), _ => if huge { pick_u32(&mut rng) } else { rng.below(100_000) } };
			let prop = match rng.below(6) { 0 => 0, 1 => rng.below(3), 2 => rng.below(5000), 3 => rng.below(1_000_001), 4 => rng.range(1_000_000, 5_000_000), _ => if huge { pick_u32(&mut rng) } else { rng.below(200_000) } };
			let max = match rng.below(8) { 0 | 1 => None, 2 => Some(near(&mut rng, value)), 3 => Some(rng.range(value / 2 + 1, 2 * value + 1)), 4 => Some(rng.below(20)), 5 | 6 => Some(value.saturating_mul(rng.range(2, 100)).saturating_add(200_000)), _ => Some(if huge { rng.next() } else { rng.range(1 << 20, 1 << 40) }) };
			let used = match rng.below(6) { 0 => max.map_or(0, |m| rng.below(m / 2 + 2)), 1 => rng.below(value / 4 + 1), _ => 0 };
			hops.push((base as u32, prop as u32, max, used));
		}
		let r = guarded(AssertUnwindSafe(|| vr::max_final_value_msat(&hops, pow)));
		let op = format!("maxfinal {} {}{}", pow, len, hops.iter().map(|h| format!(" {} {} {} {}", h.0, h.1, h.2.map_or("-".to_string(), |m| m.to_string()), h.3)).collect::<String>());
		match r {
			Err(_) => rec.case(&op, "panic", "maxfinal:panic(debug_assert false: aggregated base fee above the hop maximum)", true),
			Ok(Err(i)) => rec.case(&op, &format!("err {}", i), "maxfinal:err(aggregated fees overflow)", true),
			Ok(Ok((i, v))) => {
				// impl-side measurement (no model): with the fees charged hop by hop, does `v` fit under every hop's remaining maximum?
				let mut class = "maxfinal:ok";
				if v > 0 && v < u64::MAX / 4 {
					let mut amts = vec![0u128; len]; let mut acc = v as u128; let mut overflow = false;
					for k in (0..len).rev() { amts[k] = acc; if k > 0 { let prod = acc * hops[k].1 as u128; if prod > u64::MAX as u128 { overflow = true; break; } acc += hops[k].0 as u128 + prod / 1_000_000; } }
					if !overflow {
						for k in 0..len { let room = hops[k].2.unwrap_or(u64::MAX).saturating_sub(hops[k].3) as u128; if amts[k] > room { class = "maxfinal:ok/hop-by-hop amount above a hop maximum (aggregated-fee rounding)"; } }
						if i < len && class == "maxfinal:ok" { class = "maxfinal:ok/fits-hop-by-hop"; }
					}
				}
				rec.case(&op, &format!("ok {} {}", i, v), class, true);
			},
		}
	}
	rec.notes.insert("rule".into(), "PRNG tuples around the u64 product/sum overflow boundaries of compute_fees (+ saturating variant), all EffectiveCapacity kinds with shifts 0..255, and synthetic hop lists (1..20 hops; zero/huge fees; minimums around the value) through the real update_value_and_recompute_fees; every case distinct by op text.; impl-side oracle: minimums and policy-fee margins on every output, also after a final-hop raise (KF-C16-1 was repaired in /repo 2ea5edc)".into());
	rec.finish();
}

// ------------------------------------------------------------------------------------------------
// c16router

/// the variants of router.rs `CandidateRouteHop`
#[derive(Clone, Copy, Debug, PartialEq, Eq)]
enum Kind { Pub, First, Hint, Blinded, OneHop }
impl Kind {
	fn tag(self) -> &'static str { match self { Kind::Pub => "p", Kind::First => "f", Kind::Hint => "h", Kind::Blinded => "b", Kind::OneHop => "o" } }
	fn from_tag(t: &str) -> Kind { match t { "p" => Kind::Pub, "f" => Kind::First, "h" => Kind::Hint, "b" => Kind::Blinded, "o" => Kind::OneHop, _ => panic!("kind {}", t) } }
	fn is_blinded(self) -> bool { matches!(self, Kind::Blinded | Kind::OneHop) }
}
/// KNOWN FINDINGS of the unchanged router (DESIGN 9.3; one `known:` line each in /verif/known_findings.txt, fixes proposed in
/// /verif/run/fixes/C16-<n>.diff). Each is an ORACLE FAILURE whose message starts with the stable id + pattern below; it is only
/// given to a failure that shows the finding's specific signature (see `kf_route_tag` / the panic arm of `record`), so a different
/// violation of the same clause is still reported as a plain failure.
const KF7: &str = "KF-C16-7 route hint naming a channel of the graph bypasses the filters of the graph walk (a public channel of the payer outside first_hops / a public channel whose direction is disabled)";
const KF8: &str = "KF-C16-8 max_path_count exceeded: PaymentPath::max_final_value_msat rounded a path's contribution below minimal_value_contribution_msat (fees follow the limiting hop)";
const KF9: &str = "KF-C16-9 blinded path whose introduction node is a first-hop peer: the FirstHop entries added early (blind_intros_added) were stitched to a different continuation found later for that peer";
const KF10: &str = "KF-C16-10 a limit exceeded by 1-2 msat after get_route step (8) merged identical paths and recomputed the proportional fee on the sum";
const KF11: &str = "KF-C16-11 a limit exceeded jointly: a hop raised to its OWN htlc_minimum is booked in used_liquidities without the raise";
/// virtual node index of the payee of a blinded request
const BLINDED_PAYEE: usize = 999;
/// One candidate the router may use, with the RAW data (ChannelUpdateInfo / ChannelDetails / RouteHintHop / BlindedPayInfo).
/// First: scid = get_outbound_payment_scid(), alt = the real short_channel_id when an alias exists, hmin/hmax =
/// next_outbound_htlc_minimum_msat / next_outbound_htlc_limit_msat. Blinded/OneHop: scid = index of the blinded path.
#[derive(Clone, Debug, PartialEq)]
struct Chan { kind: Kind, scid: u64, alt: Option<u64>, src: usize, dst: usize, enabled: bool, hmin: u64, hmax: u64, unbounded: bool, cap: Option<u64>, base: u64, prop: u64, cltv: u64 }
impl Chan {
	/// what the candidate can carry at most (the harness's own reading of the property, not the generated table)
	fn limit(&self) -> u64 { match self.kind { Kind::Pub => match self.cap { Some(k) => self.hmax.min(k), None => self.hmax }, Kind::First | Kind::Blinded => self.hmax, Kind::Hint => if self.unbounded { u64::MAX } else { self.hmax }, Kind::OneHop => u64::MAX } }
	/// no fee and no CLTV delta for our own channel; the payinfo of a one-hop blinded path is ignored
	fn fee_base(&self) -> u64 { match self.kind { Kind::First | Kind::OneHop => 0, _ => self.base } }
	fn fee_prop(&self) -> u64 { match self.kind { Kind::First | Kind::OneHop => 0, _ => self.prop } }
	fn cltv_delta(&self) -> u64 { match self.kind { Kind::First | Kind::OneHop => 0, _ => self.cltv } }
	fn min(&self) -> u64 { match self.kind { Kind::OneHop => 0, _ => self.hmin } }
	/// the two id tokens of the line: a first hop gives the RAW ChannelDetails ids <outbound_scid_alias|-> <short_channel_id|->
	/// (`raw_alias` says whether `scid` is an alias), every other candidate <scid> -
	fn ids(&self) -> (String, String) {
		let o = |x: Option<u64>| x.map_or("-".to_string(), |k| k.to_string());
		if self.kind != Kind::First { return (self.scid.to_string(), "-".into()); }
		match self.alt { Some(real) => (self.scid.to_string(), real.to_string()), None => if self.scid >= 2_000_000 { (self.scid.to_string(), "-".into()) } else { (o(None), self.scid.to_string()) } }
	}
}
#[derive(Clone, Debug)]
struct Req { payer: usize, payee: usize, amt: u64, maxfee: Option<u64>, maxcltv: u64, maxpaths: u64, maxlen: u64, finalcltv: u64, excluded: Vec<u64>,
	/// `first_hops` supplied; previously_failed_blinded_path_idxs
	has_first: bool, excluded_blinded: Vec<u64>,
	/// replay information only (not part of the property): payee advertises MPP, saturation power, scorer kind, seed byte
	mpp: bool, satpow: u8, scorer: u64, seed0: u8 }
/// a RouteHop, or (blinded) the BlindedTail of the path: scid = index of the blinded path, node = BLINDED_PAYEE,
/// fee = final_value_msat, cltv = 0 (the excess final CLTV delta is already in the last RouteHop's cltv_expiry_delta)
#[derive(Clone, Debug)]
struct Hop { scid: u64, node: usize, fee: u64, cltv: u64, blinded: bool }

fn lookup<'a>(g: &'a [Chan], scid: u64, src: usize, dst: usize) -> Option<&'a Chan> { g.iter().find(|c| c.kind == Kind::Pub && c.scid == scid && c.src == src && c.dst == dst) }
fn two_way(g: &[Chan], c: &Chan) -> bool { lookup(g, c.scid, c.dst, c.src).is_some() }
fn usable_edge(g: &[Chan], c: &Chan) -> bool { c.kind != Kind::Pub || two_way(g, c) }
fn excludes(q: &Req, c: &Chan) -> bool { if c.kind.is_blinded() { q.excluded_blinded.contains(&c.scid) } else { q.excluded.contains(&c.scid) } }
/// the candidate a route hop stands for (index into g): blinded tail -> the blinded path with that index at the introduction node;
/// from the payer with first_hops supplied -> a first-hop channel to that peer, named by alias OR real scid, or else a route-hint hop whose
/// source is the payer ("through the supplied first hops, route hints or blinded tails"; router tests allow_us_being_first_hint /
/// first_hop_preferred_over_hint) — never a channel of the graph;
/// otherwise the usable public direction, else a hint hop
fn resolve(g: &[Chan], q: &Req, src: usize, h: &Hop) -> Option<usize> {
	if h.blinded { return if src == q.payer { None } else { g.iter().position(|c| c.kind.is_blinded() && c.scid == h.scid && c.src == src && c.dst == h.node) }; }
	if q.has_first && src == q.payer { return g.iter().position(|c| c.kind == Kind::First && (c.scid == h.scid || c.alt == Some(h.scid)) && c.src == src && c.dst == h.node)
		.or_else(|| g.iter().position(|c| c.kind == Kind::Hint && c.scid == h.scid && c.src == src && c.dst == h.node)); }
	g.iter().position(|c| c.kind == Kind::Pub && c.scid == h.scid && c.src == src && c.dst == h.node && two_way(g, c))
		.or_else(|| g.iter().position(|c| c.kind == Kind::Hint && c.scid == h.scid && c.src == src && c.dst == h.node))
}
fn policy_fee(c: &Chan, amt: u128) -> Option<u128> {
	let prod = amt * c.fee_prop() as u128;
	if prod > u64::MAX as u128 { return None; }
	let s = c.fee_base() as u128 + prod / 1_000_000;
	if s > u64::MAX as u128 { None } else { Some(s) }
}

/// The harness's own re-check of the property's clauses (independent of the Lean model).
fn recheck(g: &[Chan], q: &Req, r: &[Vec<Hop>]) -> Result<(), (&'static str, String)> {
	if r.len() as u64 > q.maxpaths { return Err(("paths", format!("{} paths > max_path_count {}", r.len(), q.maxpaths))); }
	let delivered: u128 = r.iter().map(|p| p.last().map_or(0, |h| h.fee as u128)).sum();
	let over = delivered.saturating_sub(q.amt as u128);
	let mut uses: Vec<(Option<usize>, u128, u128)> = vec![]; // (candidate, counted amount, amount)
	let mut chain_err: Option<String> = None;
	for (pi, path) in r.iter().enumerate() {
		if path.is_empty() { chain_err.get_or_insert(format!("path {} empty", pi)); continue; }
		let n = path.len();
		let mut amts = vec![0u128; n];
		let mut acc = 0u128;
		for i in (0..n).rev() { acc += path[i].fee as u128; amts[i] = acc; }
		let mut src = q.payer;
		let mut idx: Vec<Option<usize>> = vec![];
		for h in path.iter() { idx.push(resolve(g, q, src, h)); src = h.node; }
		let chans: Vec<Option<&Chan>> = idx.iter().map(|i| i.map(|i| &g[i])).collect();
		for i in 0..n {
			let from = if i == 0 { q.payer } else { path[i - 1].node };
			let c = match chans[i] { Some(c) => c, None => { chain_err.get_or_insert(format!("path {} hop {}: no usable {} {} from node {} to node {} among the candidates{}", pi, i, if path[i].blinded { "blinded path" } else { "channel" }, path[i].scid, from, path[i].node,
				if q.has_first && from == q.payer { " (first_hops supplied: only a first-hop channel, by alias or scid, or a hint hop starting at the payer may be used)" } else { "" })); break; } };
			if path[i].blinded && i + 1 < n { chain_err.get_or_insert(format!("path {} hop {}: a blinded tail that is not the last element", pi, i)); }
			if !usable_edge(g, c) { chain_err.get_or_insert(format!("path {} hop {}: channel {} has no policy for the reverse direction (not usable)", pi, i, c.scid)); }
			if !c.enabled { chain_err.get_or_insert(format!("path {} hop {}: channel {} direction disabled", pi, i, c.scid)); }
			if (c.min() as u128) > amts[i] { chain_err.get_or_insert(format!("path {} hop {}: amount {} below htlc_minimum {} of {:?} {}", pi, i, amts[i], c.min(), c.kind, c.scid)); }
			if excludes(q, c) { chain_err.get_or_insert(format!("path {} hop {}: excluded {:?} {}", pi, i, c.kind, c.scid)); }
			if i + 1 < n {
				match chans[i + 1] {
					None => { chain_err.get_or_insert(format!("path {} hop {}: next channel unknown", pi, i)); },
					Some(c2) => {
						match policy_fee(c2, amts[i + 1]) {
							None => { chain_err.get_or_insert(format!("path {} hop {}: policy fee of channel {} overflows on {}", pi, i + 1, c2.scid, amts[i + 1])); },
							Some(f) => if f > path[i].fee as u128 { chain_err.get_or_insert(format!("path {} node {} forwards {} msat over {:?} {} (base {} prop {}) but is paid {} < {}", pi, path[i].node, amts[i + 1], c2.kind, c2.scid, c2.fee_base(), c2.fee_prop(), path[i].fee, f)); },
						}
						if c2.cltv_delta() > path[i].cltv { chain_err.get_or_insert(format!("path {} hop {}: cltv delta {} < policy {} of {:?} {}", pi, i, path[i].cltv, c2.cltv_delta(), c2.kind, c2.scid)); }
					},
				}
			} else {
				if path[i].node != q.payee { chain_err.get_or_insert(format!("path {} does not end at the payee", pi)); }
				if q.finalcltv > path[i].cltv { chain_err.get_or_insert(format!("path {}: final cltv delta {} < requested {}", pi, path[i].cltv, q.finalcltv)); }
			}
		}
		// counted amounts (capacity clause): amount less the deliberate raises reported downstream
		let mut raise_at = vec![0u128; n]; // raise reported at hop k (k >= 1)
		for k in 1..n {
			if let Some(c) = chans[k] {
				if amts[k] == c.min() as u128 {
					let ex = match policy_fee(c, amts[k]) { Some(f) => (path[k - 1].fee as u128).saturating_sub(f), None => 0 };
					raise_at[k] = ex + if k == n - 1 { over } else { 0 };
				}
			}
		}
		for i in 0..n {
			let after: u128 = raise_at[i + 1..].iter().sum();
			uses.push((idx[i], amts[i].saturating_sub(after), amts[i]));
		}
	}
	if let Some(e) = chain_err { return Err(("chain", e)); }
	for path in r { let l = path.iter().filter(|h| !h.blinded).count() as u64; if l > q.maxlen { return Err(("length", format!("path of {} hops > max_path_length {}", l, q.maxlen))); } }
	for path in r { let t: u128 = path.iter().map(|h| h.cltv as u128).sum(); if t > q.maxcltv as u128 { return Err(("cltv", format!("total cltv {} > max_total_cltv_expiry_delta {}", t, q.maxcltv))); } }
	for (ci, c) in g.iter().enumerate() {
		// joint use of the candidate: all hops that RESOLVE to it (a first-hop channel named by its alias in one path and by its real scid in another is one channel)
		let u: u128 = uses.iter().filter(|u| u.0.map_or(false, |i| i == ci || g[i] == *c)).map(|u| u.1).sum();
		if u > c.limit() as u128 {
			// signature of the candidate finding "raise to a hop's OWN minimum is not booked as used liquidity": several paths share the
			// candidate and one of them carries exactly its minimum
			let mine: Vec<&(Option<usize>, u128, u128)> = uses.iter().filter(|u| u.0.map_or(false, |i| i == ci || g[i] == *c)).collect();
			let own = if mine.len() >= 2 && c.min() >= 1 && mine.iter().any(|u| u.2 == c.min() as u128) { "[own-minimum-raise] " } else { "" };
			return Err(("capacity", format!("excess={} {}", u - c.limit() as u128, own) + &match c.kind {
				Kind::Pub => format!("channel {} {}->{} carries {} msat jointly > min(htlc_maximum {}, capacity {:?})", c.scid, c.src, c.dst, u, c.hmax, c.cap),
				Kind::First => format!("first-hop channel (outbound scid {} / real scid {:?}) {}->{} carries {} msat jointly > next_outbound_htlc_limit_msat {}", c.scid, c.alt, c.src, c.dst, u, c.hmax),
				_ => format!("{:?} candidate {} {}->{} carries {} msat jointly > htlc_maximum {}", c.kind, c.scid, c.src, c.dst, u, c.limit()),
			}[..]));
		}
	}
	if (q.amt as u128) > delivered { return Err(("amount", format!("delivers {} < requested {}", delivered, q.amt))); }
	for path in r { let d = path.last().unwrap().fee as u128; if delivered - d >= q.amt as u128 { return Err(("superfluous", format!("part of {} msat not needed: {} delivered for {}", d, delivered, q.amt))); } }
	if let Some(m) = q.maxfee {
		let fees: u128 = over + r.iter().map(|p| p[..p.len() - 1].iter().map(|h| h.fee as u128).sum::<u128>()).sum::<u128>();
		if fees > m as u128 { return Err(("fee", format!("total fees {} > max_total_routing_fee_msat {}", fees, m))); }
	}
	Ok(())
}

/// signature of finding KF-C16-1: the path with the underpaid node ends in a hop that sits exactly at
/// its channel's htlc_minimum (update_value_and_recompute_fees raised the final hop; the fees upstream
/// were computed on amounts without the raise)
fn final_raise_signature(g: &[Chan], q: &Req, r: &[Vec<Hop>], detail: &str) -> bool {
	let pi: usize = match detail.strip_prefix("path ").and_then(|t| t.split(' ').next()).and_then(|t| t.parse().ok()) { Some(i) => i, None => return false };
	let p = match r.get(pi) { Some(p) => p, None => return false };
	let n = p.len();
	let src = if n >= 2 { p[n - 2].node } else { q.payer };
	match resolve(g, q, src, &p[n - 1]) { Some(i) => g[i].min() >= 1 && g[i].min() == p[n - 1].fee, None => false }
}

/// at most this many oracle failures are REPORTED per known finding and run (all are counted in the classes and the notes): the
/// recorder keeps 50 messages, and a new, different failure must never be crowded out by repetitions of a known one
const KF_CAP: u64 = 3;
fn kf_fail(rec: &mut Rec, seen: u64, msg: String) { if seen <= KF_CAP { rec.oracle_fail(msg); } }
/// the number that follows `marker` in `detail`
fn num_after(detail: &str, marker: &str) -> Option<u64> { detail.find(marker).and_then(|i| detail[i + marker.len()..].split(|c: char| !c.is_ascii_digit()).next()).and_then(|t| t.parse().ok()) }
/// Does the invalid route show the specific signature of a known finding? Returns the id + pattern and a class name.
fn kf_route_tag(g: &[Chan], q: &Req, r: &[Vec<Hop>], clause: &str, detail: &str) -> Option<(&'static str, &'static str)> {
	let hinted = |scid: Option<u64>| scid.map_or(false, |s| g.iter().any(|c| c.kind == Kind::Hint && c.scid == s));
	// KF-C16-7: the offending hop is a GRAPH channel NAMED BY A ROUTE HINT of the request
	if clause == "chain" && ((detail.contains(" hop 0: no usable channel") && detail.contains("first_hops supplied") && hinted(num_after(detail, "no usable channel ")))
		|| (detail.contains("direction disabled") && hinted(num_after(detail, ": channel ")))) {
		return Some((KF7, "route:KF-C16-7(hint naming a graph channel / sourced at the payer bypasses first_hops or `enabled`)"));
	}
	// KF-C16-9: a path leaves over a first hop to a peer that is the introduction node of a blinded path, but continues over another hop
	let stitched = r.iter().any(|p| p.len() >= 3 && !p[1].blinded && g.iter().any(|f| f.kind == Kind::First && f.dst == p[0].node && (f.scid == p[0].scid || f.alt == Some(p[0].scid))) && g.iter().any(|b| b.kind.is_blinded() && b.src == p[0].node));
	if stitched && matches!(clause, "capacity" | "length" | "cltv" | "fee") {
		return Some((KF9, "route:KF-C16-9(blinded path at a first-hop peer stitched to another continuation)"));
	}
	if clause == "capacity" && detail.contains("[own-minimum-raise] ") {
		return Some((KF11, "route:KF-C16-11(limit exceeded jointly: a path raised to the candidate's own minimum is not booked as used liquidity)"));
	}
	if clause == "capacity" && q.mpp && q.maxpaths > 1 && (detail.starts_with("excess=1 ") || detail.starts_with("excess=2 ")) && g.iter().any(|c| c.fee_prop() > 0) {
		return Some((KF10, "route:KF-C16-10(limit exceeded by 1-2 msat after identical paths were merged and the fee recomputed on the sum)"));
	}
	None
}

/// claim about the fee recurrence: every returned path's fee_msats are what the recurrence yields for the
/// value the path delivers (`ne` only if a channel of the route is not among the candidates)
fn recur_claim(g: &[Chan], q: &Req, r: &[Vec<Hop>]) -> &'static str {
	if r.iter().all(|p| p.is_empty()) { return "skip"; }
	for path in r {
		let mut src = q.payer;
		for h in path { if resolve(g, q, src, h).is_none() { return "ne"; } src = h.node; }
	}
	"eq"
}

/// candidate the router may consider at all for this request (from the payer, if first hops were supplied: the first hops, and route-hint hops
/// starting at the payer unless the hint names one of our channels to that peer — get_route ignores such a hint)
fn edge_allowed(g: &[Chan], q: &Req, c: &Chan) -> bool {
	usable_edge(g, c) && c.enabled && !excludes(q, c) &&
		if c.src == q.payer { if q.has_first { c.kind == Kind::First || (c.kind == Kind::Hint && !g.iter().any(|f| f.kind == Kind::First && (f.scid == c.scid || f.alt == Some(c.scid)) && f.src == c.src && f.dst == c.dst)) } else { c.kind == Kind::Pub || c.kind == Kind::Hint } } else { c.kind != Kind::First }
}
fn usable(g: &[Chan], q: &Req, c: &Chan) -> bool { edge_allowed(g, q, c) && c.min() <= q.amt && q.amt <= c.limit() }
/// reference reachability (same definition as Lean `singlePathExists`)
fn reference(g: &[Chan], q: &Req, edge_ok: &dyn Fn(&Chan) -> bool) -> bool {
	let mut seen: HashSet<usize> = HashSet::new();
	seen.insert(q.payer);
	let mut frontier = vec![q.payer];
	while !frontier.is_empty() {
		if frontier.contains(&q.payee) { return true; }
		let mut next = vec![];
		for c in g { if edge_ok(c) && frontier.contains(&c.src) && !seen.contains(&c.dst) && !next.contains(&c.dst) { next.push(c.dst); } }
		for n in &next { seen.insert(*n); }
		frontier = next;
	}
	false
}

fn req_str(q: &Req) -> String {
	format!("{} {} {} {} {} {} {} {} {} {} {} {} {} X {}{} B {}{}", q.payer, q.payee, q.amt, q.maxfee.map_or("-".to_string(), |m| m.to_string()), q.maxcltv, q.maxpaths, q.maxlen, q.finalcltv,
		q.has_first as u8, q.mpp as u8, q.satpow, q.scorer, q.seed0, q.excluded.len(), q.excluded.iter().map(|s| format!(" {}", s)).collect::<String>(),
		q.excluded_blinded.len(), q.excluded_blinded.iter().map(|s| format!(" {}", s)).collect::<String>())
}
fn graph_str(g: &[Chan]) -> String {
	format!("G {}{}", g.len(), g.iter().map(|c| format!(" {} {} {} {} {} {} {} {} {} {} {} {}", c.kind.tag(), c.ids().0, c.ids().1, c.src, c.dst, c.enabled as u8, c.hmin, if c.unbounded { "-".to_string() } else { c.hmax.to_string() }, c.cap.map_or("-".to_string(), |k| k.to_string()), c.base, c.prop, c.cltv)).collect::<String>())
}
fn route_str(r: &[Vec<Hop>]) -> String {
	format!("R {}{}", r.len(), r.iter().map(|p| format!(" {}{}", p.len(), p.iter().map(|h| format!(" {} {} {} {} {}", h.scid, h.node, h.fee, h.cltv, h.blinded as u8)).collect::<String>())).collect::<String>())
}

struct World { pks: Vec<PublicKey>, ids: Vec<NodeId>, index: HashMap<NodeId, usize> }

fn build_graph(rng: &mut Rng, w: &World, n: usize, amt_hint: u64, chain: ChainHash, profile: u64) -> Graph {
	let ng: Graph = NetworkGraph::new(Network::Testnet, &LOGGER);
	let density = rng.range(1, 3);
	let n_chan = (n as u64 * density / 1 + rng.below(n as u64)).max(2) as usize;
	let mut scid = 1u64;
	// a backbone so that most graphs are connected, plus random extra channels (parallel ones allowed)
	let mut pairs: Vec<(usize, usize)> = vec![];
	if rng.chance(5, 6) { for i in 1..n { pairs.push((rng.below(i as u64) as usize, i)); } }
	while pairs.len() < n_chan { let a = rng.below(n as u64) as usize; let b = rng.below(n as u64) as usize; if a != b { pairs.push((a, b)); } }
	for (a, b) in pairs {
		let (one, two) = if w.ids[a] < w.ids[b] { (a, b) } else { (b, a) };
		let cap_sats: Option<u64> = if profile == 0 || (profile == 1 && rng.chance(7, 10)) { match rng.below(3) { 0 => None, 1 => Some((amt_hint / 1000 + 1).saturating_mul(rng.range(1, 10))), _ => Some(rng.range(amt_hint / 1000 + 1, 20_000_000 + amt_hint / 1000 + 1)) } }
			else { match rng.below(4) { 0 => None, 1 => Some(near(rng, amt_hint / 1000 + 1).max(1)), 2 => Some(rng.range(1, 4 * (amt_hint / 1000 + 1))), _ => Some(rng.range(1, 20_000_000)) } };
		let id = scid; scid += 1;
		let ok = match rng.below(3) {
			0 => ng.add_channel_from_partial_announcement(id, cap_sats, 0, ChannelFeatures::empty(), w.ids[one], w.ids[two]).is_ok(),
			_ => {
				let msg = UnsignedChannelAnnouncement { features: ChannelFeatures::empty(), chain_hash: chain, short_channel_id: id, node_id_1: w.ids[one], node_id_2: w.ids[two],
					bitcoin_key_1: w.ids[(one + 1) % w.ids.len()], bitcoin_key_2: w.ids[(two + 2) % w.ids.len()], excess_data: vec![] };
				if msg.bitcoin_key_1 == msg.bitcoin_key_2 { false } else {
					match cap_sats {
						Some(c) => {
							let script = make_funding_redeemscript(&w.pks[(one + 1) % w.pks.len()], &w.pks[(two + 2) % w.pks.len()]).to_p2wsh();
							let stub = Stub(Ok(TxOut { value: Amount::from_sat(c), script_pubkey: script }));
							ng.update_channel_from_unsigned_announcement(&msg, &Some(&stub)).is_ok()
						},
						None => ng.update_channel_from_unsigned_announcement(&msg, &None::<&Stub>).is_ok(),
					}
				}
			},
		};
		if !ok { continue; }
		let cap_msat = cap_sats.map(|c| c * 1000);
		for dir in 0..2u8 {
			// per-direction policy: `hostile` draws limits/fees around the amount and at the extremes,
			// `benign` draws an ordinary well-provisioned channel
			let hostile = match profile { 0 => false, 1 => rng.chance(3, 10), _ => true };
			if rng.chance(if hostile { 10 } else { 3 }, 100) { continue; } // missing update for this direction
			let disabled = rng.chance(if hostile { 10 } else { 3 }, 100);
			let (hmax_raw, hmin, base, prop, cltv);
			if hostile {
				hmax_raw = match rng.below(5) { 0 => near(rng, amt_hint), 1 => rng.range(1, 2 * amt_hint + 1), 2 => cap_msat.unwrap_or(amt_hint.saturating_mul(3)), 3 => near(rng, amt_hint / 2 + 1), _ => rng.range(1, 20_000_000_000) };
				hmin = match rng.below(8) { 0 => 0, 1 => 1, 2 => near(rng, amt_hint), 3 => amt_hint + rng.below(amt_hint / 10 + 2), 4 => rng.below(amt_hint + 1), 5 => near(rng, amt_hint / 2 + 1), _ => rng.below(1000) };
				base = match rng.below(6) { 0 => 0, 1 => 1, 2 => rng.below(2000), 3 => 1000, 4 => rng.below(amt_hint.min(u32::MAX as u64) + 1), _ => if rng.chance(1, 8) { u32::MAX as u64 } else { rng.below(50_000) } };
				prop = match rng.below(6) { 0 => 0, 1 => 1, 2 => rng.below(5000), 3 => 100, 4 => rng.below(1_000_001), _ => if rng.chance(1, 8) { u32::MAX as u64 } else { rng.below(100_000) } };
				cltv = match rng.below(5) { 0 => 0, 1 => 40, 2 => rng.below(200), 3 => 144, _ => if rng.chance(1, 10) { 65535 } else { rng.below(80) } };
			} else {
				hmax_raw = match rng.below(4) { 0 => cap_msat.unwrap_or(amt_hint.saturating_mul(4)), 1 => amt_hint.saturating_mul(rng.range(1, 8)), 2 => rng.range(amt_hint / 3 + 1, 2 * amt_hint + 1), _ => amt_hint.saturating_mul(50) };
				hmin = match rng.below(6) { 0 => 0, 1 => 1, 2 => rng.below(1000).min(amt_hint), 3 => rng.below(amt_hint / 2 + 1), 4 => near(rng, amt_hint / 3 + 1), _ => 1000.min(amt_hint) };
				base = match rng.below(4) { 0 => 0, 1 => 1000, 2 => rng.below(2000), _ => 1 };
				prop = match rng.below(5) { 0 => 0, 1 => 1, 2 => 100, 3 => rng.below(5000), _ => rng.below(50_000) };
				cltv = match rng.below(4) { 0 => 40, 1 => 18, 2 => rng.below(80), _ => 34 };
			}
			let hmax = match cap_msat { Some(c) => hmax_raw.min(c), None => hmax_raw }.max(1);
			let upd = UnsignedChannelUpdate { chain_hash: chain, short_channel_id: id, timestamp: 2, message_flags: 1, channel_flags: dir | ((disabled as u8) << 1),
				cltv_expiry_delta: cltv as u16, htlc_minimum_msat: hmin, htlc_maximum_msat: hmax, fee_base_msat: base as u32, fee_proportional_millionths: prop as u32, excess_data: vec![] };
			let _ = ng.update_channel_unsigned(&upd);
		}
	}
	ng
}

/// payer = node 0, payee = node 1, joined by np+1 … np+3 parallel zero-fee channels whose htlc_maximum is ⌊v/np⌋, ⌈v/np⌉ or
/// one off, plus a few 2-hop detours of the same width through the other nodes.
fn build_fan_graph(rng: &mut Rng, w: &World, n: usize, chain: ChainHash, v: u64, np: u8) -> Graph {
	let ng: Graph = NetworkGraph::new(Network::Testnet, &LOGGER);
	let k = np as u64 + rng.range(1, 3);
	let floor = v / np as u64; let ceil = (v + np as u64 - 1) / np as u64;
	let mode = rng.below(4);
	let mut scid = 1u64;
	let mut add = |a: usize, b: usize, hmax: u64, rng: &mut Rng| {
		let (one, two) = if w.ids[a] < w.ids[b] { (a, b) } else { (b, a) };
		let id = scid; scid += 1;
		if ng.add_channel_from_partial_announcement(id, None, 0, ChannelFeatures::empty(), w.ids[one], w.ids[two]).is_err() { return; }
		for dir in 0..2u8 {
			let upd = UnsignedChannelUpdate { chain_hash: chain, short_channel_id: id, timestamp: 2, message_flags: 1, channel_flags: dir,
				cltv_expiry_delta: 18 + rng.below(3) as u16, htlc_minimum_msat: 0, htlc_maximum_msat: hmax.max(1), fee_base_msat: 0, fee_proportional_millionths: 0, excess_data: vec![] };
			let _ = ng.update_channel_unsigned(&upd);
		}
	};
	for i in 0..k {
		let hmax = match mode { 0 => floor, 1 => ceil, 2 => if i % 2 == 0 { floor } else { ceil }, _ => near(rng, floor).max(1) };
		if i < k - 1 || n < 3 || rng.chance(1, 2) { add(0, 1, hmax, rng); } else { let mid = 2 + rng.below(n as u64 - 2) as usize; add(0, mid, hmax, rng); add(mid, 1, hmax, rng); }
	}
	ng
}

fn dump_graph<GL: lightning::util::logger::Logger>(ng: &NetworkGraph<GL>, w: &World) -> Vec<Chan> {
	let ro = ng.read_only();
	let mut out = vec![];
	let mut scids: Vec<u64> = ro.channels().unordered_iter().map(|(k, _)| *k).collect();
	scids.sort();
	for scid in scids {
		let ci = ro.channels().get(&scid).unwrap();
		let (a, b) = (w.index[&ci.node_one], w.index[&ci.node_two]);
		let cap = ci.capacity_sats.map(|c| c * 1000);
		if let Some(u) = &ci.one_to_two { out.push(Chan { kind: Kind::Pub, alt: None, unbounded: false, scid, src: a, dst: b, enabled: u.enabled, hmin: u.htlc_minimum_msat, hmax: u.htlc_maximum_msat, cap, base: u.fees.base_msat as u64, prop: u.fees.proportional_millionths as u64, cltv: u.cltv_expiry_delta as u64 }); }
		if let Some(u) = &ci.two_to_one { out.push(Chan { kind: Kind::Pub, alt: None, unbounded: false, scid, src: b, dst: a, enabled: u.enabled, hmin: u.htlc_minimum_msat, hmax: u.htlc_maximum_msat, cap, base: u.fees.base_msat as u64, prop: u.fees.proportional_millionths as u64, cltv: u.cltv_expiry_delta as u64 }); }
	}
	out
}

/// `blinding_points[i]` = blinding point of the payee's i-th blinded path (unique per request): identifies a BlindedTail
fn to_hops(route: &Route, w: &World, blinding_points: &[PublicKey]) -> Vec<Vec<Hop>> {
	route.paths.iter().map(|p| {
		let mut v: Vec<Hop> = p.hops.iter().map(|h| Hop { scid: h.short_channel_id, node: w.index[&NodeId::from_pubkey(&h.pubkey)], fee: h.fee_msat, cltv: h.cltv_expiry_delta as u64, blinded: false }).collect();
		if let Some(t) = &p.blinded_tail {
			let idx = blinding_points.iter().position(|b| *b == t.blinding_point).map_or(u64::MAX, |i| i as u64);
			// excess_final_cltv_expiry_delta is already part of the last RouteHop's cltv_expiry_delta (add_random_cltv_offset adds the
			// shadow offset to both; Path::total_cltv_expiry_delta sums the hops only): the tail itself adds no CLTV delta
			v.push(Hop { scid: idx, node: BLINDED_PAYEE, fee: t.final_value_msat, cltv: 0, blinded: true });
		}
		v
	}).collect()
}

/// Conservative completeness double-check (Rust only): a path whose every hop can carry `mult` times an
/// upper bound of ANY amount a simple path could accumulate (amount + worst-case fees), with minimums
/// at most the bare amount, short enough and with CLTV limits that cannot bind.
fn ample_path_exists(g: &[Chan], q: &Req, n_nodes: usize, mult: u128) -> bool { ample_path(g, q, n_nodes, mult).is_some() }

/// Returns a concrete payer→payee path over ample edges, after re-verifying on THAT path, with the fees
/// accumulated hop by hop (payee → payer, the payer's own channel is free), that every hop amount lies
/// within [htlc_minimum, min(htlc_maximum, capacity)], and that length and total CLTV are within the limits.
fn ample_path(g: &[Chan], q: &Req, n_nodes: usize, mult: u128) -> Option<Vec<Chan>> { ample_path_ext(g, q, n_nodes, mult, false) }
/// `all`: additionally EVERY candidate the router may consider must be ample — or, for a single-path request, plainly unable
/// to carry the amount — (so that no tight alternative can be preferred and then fail: the mechanism of KF-C16-5 is
/// excluded by construction)
fn ample_path_ext(g: &[Chan], q: &Req, n_nodes: usize, mult: u128, all: bool) -> Option<Vec<Chan>> {
	let usable_all: Vec<&Chan> = g.iter().filter(|c| edge_allowed(g, q, c)).collect();
	let maxbase = usable_all.iter().map(|c| c.fee_base() as u128).max().unwrap_or(0);
	let maxprop = usable_all.iter().map(|c| c.fee_prop() as u128).max().unwrap_or(0);
	let maxcltv_delta = usable_all.iter().map(|c| c.cltv_delta()).max().unwrap_or(0);
	let hops = (n_nodes as u64).saturating_sub(1);
	if hops > q.maxlen.min(19) { return None; }
	let internal_cltv = { let room = q.maxcltv.saturating_sub(q.finalcltv); let r = if room >= 80 { room - 80 } else { room }; r.min(u16::MAX as u64) };
	if q.maxcltv <= q.finalcltv || hops * maxcltv_delta > internal_cltv { return None; }
	if q.maxfee.is_some() { return None; }
	let mut bound = 3 * q.amt as u128; // the router may search with 3x the value (recommended_value_msat)
	for _ in 0..hops { bound = bound + maxbase + (bound * maxprop + 999_999) / 1_000_000 + 1; if bound > (1u128 << 62) { return None; } }
	let need = bound * mult;
	// `all`: ample also after the saturation shift of the first pass (a shifted limit just above the amount is "tight" too)
	let ok = |c: &Chan| usable(g, q, c) && ((if all { c.limit() >> q.satpow.min(63) } else { c.limit() }) as u128) >= need;
	// a single-path request ignores candidates that cannot carry the whole amount (limit below it / minimum above it): they are not "tight"
	let single = !(q.mpp && q.maxpaths > 1);
	if all && usable_all.iter().any(|c| !(ok(c) || (single && (c.limit() < q.amt || c.min() > q.amt)))) { return None; }
	// BFS with parents
	let mut parent: HashMap<usize, Chan> = HashMap::new();
	let mut seen: HashSet<usize> = HashSet::new();
	seen.insert(q.payer);
	let mut frontier = vec![q.payer];
	while !frontier.is_empty() && !seen.contains(&q.payee) {
		let mut next = vec![];
		for c in g { if ok(c) && frontier.contains(&c.src) && !seen.contains(&c.dst) { seen.insert(c.dst); parent.insert(c.dst, c.clone()); next.push(c.dst); } }
		frontier = next;
	}
	if !seen.contains(&q.payee) { return None; }
	let mut path = vec![];
	let mut at = q.payee;
	while at != q.payer { let c = parent.get(&at)?.clone(); at = c.src; path.push(c); if path.len() > n_nodes { return None; } }
	path.reverse();
	// exact re-verification with accumulated fees
	if path.len() as u64 > q.maxlen.min(19) { return None; }
	let cltv: u64 = path[1..].iter().map(|c| c.cltv_delta()).sum::<u64>() + q.finalcltv;
	if cltv > q.maxcltv || path[1..].iter().map(|c| c.cltv_delta()).sum::<u64>() > internal_cltv { return None; }
	let mut amt = q.amt as u128;
	for i in (0..path.len()).rev() {
		let c = &path[i];
		if amt < c.min() as u128 || amt > c.limit() as u128 { return None; }
		if i > 0 { amt += policy_fee(c, amt)?; }
	}
	Some(path)
}

struct Stats { n_ok: u64, n_err: u64, n_panic: u64, n_multi: u64, n_raise: u64, n_first: u64, n_hint: u64, n_blinded: u64, n_alias_real: u64, n_probe: u64, n_bypass: u64, bypass_example: String, n_all_ample: u64, n_count_rounding: u64, count_rounding_example: String, n_stitch: u64, stitch_example: String, n_merge: u64, merge_example: String, n_ownmin: u64, ownmin_example: String,
	debug_asserts: std::collections::BTreeMap<String, (u64, String)> }

/// classify and record one find_route outcome (`ext`: an extended request — first hops / hints / blinded tails / fed scorer)
fn record(rec: &mut Rec, st: &mut Stats, w: &World, g: &[Chan], gs: &str, q: &Req, n: usize, ext: bool, probe: bool, blinding_points: &[PublicKey],
	res: Result<Result<Route, &'static str>, String>, kept: &mut Vec<lightning::routing::router::Path>) {
	match res {
		Err(p) => {
			st.n_panic += 1;
			let at = LAST_PANIC_AT.lock().unwrap().clone();
			let p1 = p.replace('\n', " ");
			// The router's own debug assertions (this harness, like the crate's tests, builds with debug
			// assertions) are not clauses of C16 ("every route the router RETURNS …"): no route is
			// returned. Counted as discarded cases, reported in the notes with one example input each.
			// Only the two assertions observed on the unchanged tree are discarded (DESIGN 9.3, observations); any other router
			// assertion — e.g. `paths.len() <= max_path_count`, which states a clause of C16 about the route that a release
			// build WOULD return — is a failure with the request as the failing input.
			let own_assert = at.starts_with("router.rs") && (p1.contains("assertion failed: false") || p1.contains("Paths should always send more than 0 msat"));
			if own_assert {
				rec.discarded += 1;
				let key = format!("{} at {}", if p1.len() > 80 { &p1[..80] } else { &p1[..] }, at);
				let e = st.debug_asserts.entry(key).or_insert((0u64, String::new()));
				e.0 += 1;
				if e.1.is_empty() { e.1 = format!("noroute {} {}", req_str(q), gs); }
				*rec.classes.entry("find_route:own-debug-assert(discarded)".into()).or_insert(0) += 1;
			} else if (p1.contains("Path had a length of") || p1.contains("*used_liquidity_msat <= hop_max_msat")) && g.iter().any(|b| b.kind.is_blinded() && g.iter().any(|f| f.kind == Kind::First && f.dst == b.src)) {
				// KF-C16-9: a blinded path whose introduction node is one of our first-hop peers gets its FirstHop entries added at once
				// (`blind_intros_added`, path length 1, the blinded path's fee and CLTV), before that peer is processed; when the peer later
				// gets a cheaper continuation (a graph channel towards ANOTHER blinded path's introduction node) its `dist` entry is
				// overwritten and the payer's entry is stitched to it: the route is longer than what the limits were checked against.
				// Route::debug_assert_route_meets_params (a debug assertion with `_test_utils`, an error log otherwise) reports
				// max_path_length exceeded; or the stitched path trips get_route's own `debug_assert!(*used_liquidity_msat <= hop_max_msat)`.
				st.n_stitch += 1;
				if st.stitch_example.is_empty() { st.stitch_example = format!("{} | noroute {} {}", p1, req_str(q), gs); }
				kf_fail(rec, st.n_stitch, format!("{}: find_route panicked ({} at {}) on: noroute {} {}", KF9, p1, at, req_str(q), gs));
				*rec.classes.entry("find_route:KF-C16-9(max_path_length exceeded: blinded path at a first-hop peer stitched to a longer continuation)".into()).or_insert(0) += 1;
			} else if p1.contains("paths.len() <= payment_params.max_path_count") && g.iter().any(|c| edge_allowed(g, q, c) && (c.fee_base() > 0 || c.fee_prop() > 0)) {
				// KF-C16-8: with non-zero fees after a hop, PaymentPath::max_final_value_msat rounds the path's contribution DOWN below what
				// add_entry! admitted (e.g. hop maximum 5, fees base 1 + 1 ppm: ⌊4000001/1000001⌋ = 3, although 4 + fee(4) = 5 fits), so a
				// collected path contributes less than minimal_value_contribution_msat = ⌈amount/max_path_count⌉ and more than max_path_count
				// paths are needed: debug assertion here, a route with too many paths in a release build.
				// The zero-fee fan family (seeded C16-b) stays a plain failure.
				st.n_count_rounding += 1;
				if st.count_rounding_example.is_empty() { st.count_rounding_example = format!("noroute {} {}", req_str(q), gs); }
				kf_fail(rec, st.n_count_rounding, format!("{}: find_route panicked ({} at {}) on: noroute {} {}", KF8, p1, at, req_str(q), gs));
				*rec.classes.entry("find_route:KF-C16-8(max_path_count exceeded: contribution rounded below the minimal contribution)".into()).or_insert(0) += 1;
			} else {
				rec.oracle_fail(format!("find_route panicked ({} at {}) on: noroute {} {}", p1, at, req_str(q), gs));
				*rec.classes.entry("find_route:panic".into()).or_insert(0) += 1;
			}
		},
		Ok(Ok(route)) => {
			st.n_ok += 1;
			let r = to_hops(&route, w, blinding_points);
			if r.len() > 1 { st.n_multi += 1; }
			let op = format!("route {} {} {}", req_str(q), gs, route_str(&r));
			let mut kf_class: Option<&'static str> = None;
			let verdict = match recheck(g, q, &r) {
				Ok(()) => "valid".to_string(),
				Err((clause, detail)) => {
					// KNOWN FINDINGS (see KF7 … KF11): the failure carries the stable id only when the route shows the finding's signature
					let mut seen = 0u64;
					let tag = if let Some((id, class)) = kf_route_tag(g, q, &r, clause, &detail) {
						kf_class = Some(class);
						let ex = format!("{} | {}", detail, op);
						seen = match id { x if x == KF7 => { st.n_bypass += 1; if st.bypass_example.is_empty() { st.bypass_example = ex; } st.n_bypass }, x if x == KF9 => { st.n_stitch += 1; if st.stitch_example.is_empty() { st.stitch_example = ex; } st.n_stitch },
							x if x == KF10 => { st.n_merge += 1; if st.merge_example.is_empty() { st.merge_example = ex; } st.n_merge }, _ => { st.n_ownmin += 1; if st.ownmin_example.is_empty() { st.ownmin_example = ex; } st.n_ownmin } };
						format!("{}: ", id) }
						else if clause == "chain" && detail.contains("is paid") && final_raise_signature(g, q, &r, &detail) { "KF-C16-1 final-hop raised to htlc_minimum, upstream fee computed without the raise: ".to_string() }
						else if clause == "capacity" && r.iter().enumerate().any(|(i, _)| final_raise_signature(g, q, &r, &format!("path {} ", i))) { "KF-C16-6 htlc_maximum exceeded after raises to htlc_minimum (final-hop raise not propagated upstream, no re-check): ".to_string() } else { String::new() };
					kf_fail(rec, seen, format!("{}find_route returned a route violating clause `{}`: {} | {}", tag, clause, detail, op)); format!("invalid {}", clause) },
			};
			// classify: shape of the route and whether a raise to a minimum is visible
			let mut raised = false;
			let (mut first, mut hint, mut blinded, mut by_real) = (false, false, false, false);
			for p in &r { let mut src = q.payer; let mut acc: Vec<u64> = vec![0; p.len()]; let mut s = 0u64; for i in (0..p.len()).rev() { s = s.saturating_add(p[i].fee); acc[i] = s; }
				for (i, h) in p.iter().enumerate() { if let Some(ci) = resolve(g, q, src, h) { let c = &g[ci]; if acc[i] == c.min() && c.min() > 1 { raised = true; }
					match c.kind { Kind::First => { first = true; if c.scid != h.scid { by_real = true; } }, Kind::Hint => hint = true, Kind::Blinded | Kind::OneHop => blinded = true, Kind::Pub => {} } } src = h.node; } }
			if raised { st.n_raise += 1; }
			if first { st.n_first += 1; } if hint { st.n_hint += 1; } if blinded { st.n_blinded += 1; } if by_real { st.n_alias_real += 1; }
			let over = r.iter().map(|p| p.last().unwrap().fee as u128).sum::<u128>() > q.amt as u128;
			let class = format!("route:{}{}{}{}{}{}{}", if r.len() > 1 { "mpp" } else { "single" }, match r.iter().map(|p| p.iter().filter(|h| !h.blinded).count()).max().unwrap_or(0) { 1 => "/direct", 2 | 3 => "/2-3hops", _ => "/4+hops" }, if raised { "/at-minimum" } else { "" }, if over { "/overpays" } else { "" },
				if first { "/first-hop" } else { "" }, if hint { "/hint" } else { "" }, if blinded { "/blinded-tail" } else { "" });
			let class = match kf_class { Some(c) => c.to_string(), None => class };
			rec.case(&op, &format!("{} recur={}", verdict, recur_claim(g, q, &r)), &class, true);
			if ext {
				// how often the completeness oracle of extended requests is armed (a route found while it is armed = it held)
				let mut nodes: HashSet<usize> = g.iter().flat_map(|c| [c.src, c.dst]).collect(); nodes.insert(q.payer); nodes.insert(q.payee);
				if ample_path_ext(g, q, nodes.len(), if q.maxpaths > 1 && q.mpp { 2 } else { 1 }, true).is_some() { st.n_all_ample += 1; }
				for p in route.paths { if kept.len() < 24 { kept.push(p); } }
			}
		},
		Ok(Err(e)) => {
			st.n_err += 1;
			let found = reference(g, q, &|c: &Chan| usable(g, q, c));
			let op = format!("noroute {} {}", req_str(q), gs);
			let class;
			if found {
				let mult = if q.maxpaths > 1 && q.mpp { 2 } else { 1 };
				if !ext {
					if let Some(path) = ample_path(g, q, n, mult) {
						let path_s: String = path.iter().map(|c| format!(" {}:{}->{}", c.scid, c.src, c.dst)).collect();
						let e = format!("{}; sufficient path (scid:src->dst){}", e, path_s);
						class = "noroute:ref-found,ample(FLAGGED)".to_string();
						rec.oracle_fail(format!("KF-C16-5 router reports failure although a sufficient single path exists: find_route failed (\"{}\") although a single path with ample limits exists and fee/CLTV/length limits cannot bind | {}", e, op));
					} else { class = "noroute:ref-found,not-confirmed(limits may bind)".to_string(); }
				} else {
					// extended requests: flagged only when EVERY candidate the router may consider is ample (no tight alternative
					// exists, so the mechanism of KF-C16-5 cannot be the cause)
					let mut nodes: HashSet<usize> = g.iter().flat_map(|c| [c.src, c.dst]).collect(); nodes.insert(q.payer); nodes.insert(q.payee);
					// (not on probe requests: their hint over a graph scid is replaced by the PublicHop candidate, it is no candidate itself)
					if probe { class = "noroute:ext,probe,ref-found".to_string(); }
					else if let Some(path) = ample_path_ext(g, q, nodes.len(), mult, true) {
						let path_s: String = path.iter().map(|c| format!(" {}{}:{}->{}", c.kind.tag(), c.scid, c.src, c.dst)).collect();
						class = "noroute:ext,ref-found,all-ample(FLAGGED)".to_string();
						rec.oracle_fail(format!("router reports failure (\"{}\") although a sufficient single path through the supplied first hops / hints / blinded paths exists{} and every candidate is ample (fee/CLTV/length limits cannot bind) | {}", e, path_s, op));
					} else { class = "noroute:ext,ref-found,not-confirmed".to_string(); }
				}
			} else { class = format!("noroute:{}ref-none/{}", if ext { "ext," } else { "" }, if e.contains("sufficient") { "insufficient" } else if e.contains("find a path") { "no-path" } else { "other" }); }
			rec.case(&op, if found { "ref=found" } else { "ref=none" }, &class, true);
		},
	}
}

/// DECOY fields of a supplied ChannelDetails (C16-r5): the values a FirstHop candidate must NOT read, set apart from the ones it must
/// (next_outbound_htlc_minimum_msat / next_outbound_htlc_limit_msat), as in a live channel: the counterparty's STATIC htlc minimum is
/// at most the current minimum (tx_builder raises the latter when dust HTLCs can no longer be sent; `None` for pre-0.0.107 data), its
/// static maximum and our outbound capacity are above the current limit. Pure functions of (limit, min) so that a replayed line
/// rebuilds the same ChannelDetails; the Lean driver applies the same formulas (Driver/C16.lean `detailsOf`).
fn decoy_cp_min(limit: u64, min: u64) -> Option<u64> { match (limit ^ min.rotate_left(7) ^ (min >> 3)) % 5 { 0 => None, 1 => Some(0), 2 => Some(min / 2), 3 => Some(min.saturating_sub(1)), _ => Some(min) } }
fn decoy_cp_max(limit: u64) -> Option<u64> { Some(limit.saturating_mul(3).saturating_add(11)) }
fn decoy_outbound_capacity(limit: u64) -> u64 { limit.saturating_mul(2).saturating_add(7) }
fn decoy_channel_value_sat(limit: u64) -> u64 { limit / 500 + 8 }
const DECOY_INBOUND_CAPACITY: u64 = 42;

fn channel_details(peer: PublicKey, scid: Option<u64>, alias: Option<u64>, limit: u64, min: u64, announced: bool) -> ChannelDetails {
	channel_details_raw(peer, scid, alias, limit, min, announced, decoy_cp_min(limit, min), decoy_cp_max(limit), decoy_outbound_capacity(limit), DECOY_INBOUND_CAPACITY, decoy_channel_value_sat(limit), None, None)
}
fn channel_details_raw(peer: PublicKey, scid: Option<u64>, alias: Option<u64>, limit: u64, min: u64, announced: bool, cp_min: Option<u64>, cp_max: Option<u64>, out_cap: u64, in_cap: u64, value_sat: u64, in_min: Option<u64>, in_max: Option<u64>) -> ChannelDetails {
	#[allow(deprecated)]
	ChannelDetails {
		channel_id: ChannelId::new_zero(),
		counterparty: ChannelCounterparty { features: InitFeatures::empty(), node_id: peer, unspendable_punishment_reserve: 0, forwarding_info: None, outbound_htlc_minimum_msat: cp_min, outbound_htlc_maximum_msat: cp_max },
		funding_txo: None, funding_redeem_script: None, channel_type: None,
		short_channel_id: scid, outbound_scid_alias: alias, inbound_scid_alias: None,
		channel_value_satoshis: value_sat, user_channel_id: 0, outbound_capacity_msat: out_cap,
		next_outbound_htlc_limit_msat: limit, next_outbound_htlc_minimum_msat: min, next_splice_out_maximum_sat: limit / 1000,
		inbound_capacity_msat: in_cap, unspendable_punishment_reserve: None, confirmations_required: None, confirmations: None,
		force_close_spend_delay: None, is_outbound: true, is_channel_ready: true, is_usable: true, is_announced: announced,
		inbound_htlc_minimum_msat: in_min, inbound_htlc_maximum_msat: in_max, config: None, feerate_sat_per_1000_weight: None,
		channel_shutdown_state: Some(ChannelShutdownState::NotShuttingDown), pending_inbound_htlcs: Vec::new(), pending_outbound_htlcs: Vec::new(),
		current_dust_exposure_msat: None, splice_details: None,
	}
}

struct FixedEntropy(std::sync::atomic::AtomicU64);
impl lightning::sign::EntropySource for FixedEntropy {
	fn get_secure_random_bytes(&self) -> [u8; 32] { let v = self.0.fetch_add(1, std::sync::atomic::Ordering::Relaxed); let mut b = [7u8; 32]; b[..8].copy_from_slice(&v.to_le_bytes()); b }
}

/// An EXTENDED request on graph `g0` (public candidates): first hops (several channels to the same peer, outbound alias
/// different from the real scid, limited outbound), 0–3 route hints (also naming one of our own channels by alias or by real
/// scid), or 1–3 blinded tails (from raw payinfo or a real BlindedPaymentPath::new), excluded channels / blinded paths.
/// Returns the request, the candidate list, the RouteParameters, the first hops and the blinding points.
fn ext_request(rng: &mut Rng, w: &World, secp: &Secp256k1<bitcoin::secp256k1::All>, g0: &[Chan], n: usize, amt_hint: u64, blind_pks: &[PublicKey], probe: bool)
	-> (Req, Vec<Chan>, RouteParameters, Option<Vec<ChannelDetails>>, Vec<PublicKey>) {
	let nmax = w.pks.len();
	let payer = rng.below(n as u64) as usize;
	let mut payee = rng.below(n as u64) as usize;
	if payee == payer { payee = (payer + 1) % n; }
	let amt = match rng.below(7) { 0 => rng.range(1, 20), 1 => near(rng, amt_hint).max(1), 2 => rng.range(1, amt_hint.max(1)), 3 => if g0.is_empty() { amt_hint.max(1) } else { let c = rng.pick(g0); near(rng, c.limit()).max(1) },
		4 => amt_hint.saturating_mul(rng.range(2, 4)), _ => amt_hint.max(1) }.min(2_000_000_000_000_000);
	// `roomy`: a single-path request for a small amount with generous own channels / hints / blinded paths and default limits:
	// arms the completeness oracle of extended requests
	let roomy = !probe && rng.chance(1, 4);
	let amt = if roomy { match rng.below(3) { 0 => rng.range(1, 2000), 1 => amt_hint / 1000 + 1, _ => amt_hint / 50 + 1 } } else { amt };
	let mut g: Vec<Chan> = g0.to_vec();
	// ---- first hops
	let has_first = probe || rng.chance(3, 4);
	let mut details: Vec<ChannelDetails> = vec![];
	let mut own: Vec<(usize, u64, Option<u64>)> = vec![]; // (peer, outbound payment scid, real scid if also aliased)
	if has_first {
		let mut peers: Vec<usize> = vec![];
		let neigh: Vec<usize> = g0.iter().filter(|c| c.src == payer).map(|c| c.dst).collect();
		for _ in 0..rng.range(1, 4) {
			let p = match rng.below(6) { 0 => payee, 1 | 2 | 3 if !neigh.is_empty() => *rng.pick(&neigh), _ => rng.below(n as u64) as usize };
			if p != payer && !peers.contains(&p) { peers.push(p); }
		}
		let mut k = 0u64;
		for &peer in &peers {
			for _ in 0..match rng.below(4) { 0 | 1 => 1, 2 => 2, _ => 3 } {
				k += 1;
				// the real scid: an announced channel of the graph between us and the peer, or a private one
				let public: Vec<u64> = g0.iter().filter(|c| c.src == payer && c.dst == peer && two_way(g0, c)).map(|c| c.scid).filter(|s| !own.iter().any(|o| o.1 == *s || o.2 == Some(*s))).collect();
				let (real, announced) = if !public.is_empty() && rng.chance(1, 2) { (*rng.pick(&public), true) } else { (1_000_000 + k, false) };
				let (scid, alias) = match rng.below(10) { 0 | 1 => (Some(real), None), 2 => (None, Some(2_000_000 + k)), _ => (Some(real), Some(2_000_000 + k)) };
				let limit = match rng.below(7) { 0 => near(rng, amt).max(1), 1 => near(rng, amt / 2 + 1).max(1), 2 => rng.range(1, 2 * amt + 1), 3 => amt.saturating_mul(rng.range(2, 50)), 4 => near(rng, amt / 3 + 1).max(1), 5 => near(rng, amt.saturating_add(amt / 50 + 1)), _ => amt.saturating_mul(1000).saturating_add(10_000_000) };
				let min = match rng.below(8) { 0 => near(rng, amt), 1 => rng.below(amt + 1), 2 => 1, 3 => rng.below(1000), _ => 0 };
				let (limit, min) = if roomy { (amt.saturating_mul(100_000).saturating_add(1_000_000_000), min.min(amt)) } else { (limit, min) };
				details.push(channel_details(w.pks[peer], scid, alias, limit, min, announced));
				let out = alias.or(scid).unwrap();
				own.push((peer, out, if alias.is_some() { scid } else { None }));
				g.push(Chan { kind: Kind::First, scid: out, alt: if alias.is_some() { scid } else { None }, src: payer, dst: peer, enabled: true, hmin: min, hmax: limit, unbounded: false, cap: decoy_cp_min(limit, min), base: 0, prop: 0, cltv: 0 });
			}
		}
		if details.is_empty() { // always at least one channel
			let peer = (payer + 1) % n;
			details.push(channel_details(w.pks[peer], Some(1_000_099), Some(2_000_099), amt.saturating_mul(3), 0, false));
			own.push((peer, 2_000_099, Some(1_000_099)));
			g.push(Chan { kind: Kind::First, scid: 2_000_099, alt: Some(1_000_099), src: payer, dst: peer, enabled: true, hmin: 0, hmax: amt.saturating_mul(3), unbounded: false, cap: decoy_cp_min(amt.saturating_mul(3), 0), base: 0, prop: 0, cltv: 0 });
		}
	}
	let finalcltv = *rng.pick(&[0u32, 18, 40, 144]);
	let mpp = !roomy && rng.chance(2, 3);
	let blinded_mode = !probe && rng.chance(3, 10);
	let mut blinding_points: Vec<PublicKey> = vec![];
	let mut pp;
	let (q_payee, q_finalcltv);
	if blinded_mode {
		// ---- blinded tails: the payee is virtual; one candidate per path, introduction node -> payee
		let n_paths = match rng.below(4) { 0 => 1, 3 => 3, _ => 2 };
		let mut paths: Vec<BlindedPaymentPath> = vec![];
		let one_hop_intro = payee;
		for i in 0..n_paths {
			let n_hops = match rng.below(5) { 0 => 1, 1 | 2 => 2, _ => 3 } as usize;
			let intro = if n_hops == 1 { one_hop_intro } else { match rng.below(8) { 0 => payer, 1 | 2 if !own.is_empty() => rng.pick(&own).0, 3 => rng.below(nmax as u64) as usize, _ => { let x = rng.below(n as u64) as usize; if x == payer { payee } else { x } } } };
			let blinding = blind_pks[i];
			let base = match rng.below(5) { 0 => 0, 1 => 1000, 2 => rng.below(5000), 3 => rng.below(amt.min(u32::MAX as u64) / 20 + 1), _ => 1 };
			let prop = match rng.below(5) { 0 => 0, 1 => 100, 2 => rng.below(5000), 3 => rng.below(200_000), _ => 1 };
			let cltv = match rng.below(4) { 0 => 0, 1 => 40, 2 => rng.below(300), _ => 144 };
			let hmin = match rng.below(6) { 0 => near(rng, amt), 1 => rng.below(amt + 1), 2 => 1, _ => 0 };
			let hmax = match rng.below(6) { 0 => near(rng, amt).max(1), 1 => near(rng, amt / 2 + 1).max(1), 2 => rng.range(1, 2 * amt + 1), _ => amt.saturating_mul(rng.range(2, 1000)).max(1) };
			let (hmin, hmax) = if roomy { (hmin.min(amt), amt.saturating_mul(100_000).saturating_add(1_000_000_000)) } else { (hmin, hmax) };
			let hops: Vec<BlindedHop> = (0..n_hops).map(|j| BlindedHop { blinded_node_id: blind_pks[(i + j + 1) % blind_pks.len()], encrypted_payload: vec![] }).collect();
			let mut payinfo = BlindedPayInfo { fee_base_msat: base as u32, fee_proportional_millionths: prop as u32, cltv_expiry_delta: cltv as u16, htlc_minimum_msat: hmin, htlc_maximum_msat: hmax, features: BlindedHopFeatures::empty() };
			let mut path = BlindedPaymentPath::from_blinded_path_and_payinfo(w.pks[intro], blinding, hops, payinfo.clone());
			if n_hops == 2 && rng.chance(1, 2) {
				// a REAL blinded path: one forwarding node (the introduction node) and the recipient; payinfo aggregated by LDK
				let fwd = PaymentForwardNode { tlvs: ForwardTlvs { short_channel_id: 4_000_000 + i as u64, payment_relay: PaymentRelay { cltv_expiry_delta: cltv as u16, fee_proportional_millionths: prop as u32, fee_base_msat: base as u32 },
					payment_constraints: PaymentConstraints { max_cltv_expiry: 1_000_000, htlc_minimum_msat: hmin }, features: BlindedHopFeatures::empty(), next_blinding_override: None }, node_id: w.pks[intro], htlc_maximum_msat: hmax };
				let tlvs = ReceiveTlvs { payment_secret: PaymentSecret([3; 32]), payment_constraints: PaymentConstraints { max_cltv_expiry: 1_000_000, htlc_minimum_msat: 1 }, payment_context: PaymentContext::Bolt12Refund(Bolt12RefundContext { payment_metadata: None }) };
				let es = FixedEntropy(std::sync::atomic::AtomicU64::new(rng.next()));
				if let Ok(real) = BlindedPaymentPath::new(&[fwd], blind_pks[(i + 5) % blind_pks.len()], ReceiveAuthKey([9; 32]), tlvs, u64::MAX, finalcltv as u16, &es, secp) {
					payinfo = real.payinfo.clone(); path = real;
				}
			}
			let bp = path.blinding_point();
			if blinding_points.contains(&bp) { continue; }
			blinding_points.push(bp);
			g.push(Chan { kind: if path.blinded_hops().len() == 1 { Kind::OneHop } else { Kind::Blinded }, scid: paths.len() as u64, alt: None, src: intro, dst: BLINDED_PAYEE, enabled: true, hmin: payinfo.htlc_minimum_msat, hmax: payinfo.htlc_maximum_msat, unbounded: false, cap: None,
				base: payinfo.fee_base_msat as u64, prop: payinfo.fee_proportional_millionths as u64, cltv: payinfo.cltv_expiry_delta as u64 });
			paths.push(path);
		}
		pp = PaymentParameters::blinded(paths);
		if mpp { let mut f = Bolt12InvoiceFeatures::empty(); f.set_basic_mpp_optional(); pp = pp.with_bolt12_features(f).unwrap(); }
		q_payee = BLINDED_PAYEE; q_finalcltv = 0u64;
	} else {
		// ---- route hints (chains ending at the payee)
		pp = if mpp { PaymentParameters::for_keysend(w.pks[payee], finalcltv, true) } else { PaymentParameters::from_node_id(w.pks[payee], finalcltv) };
		let n_hints = if probe { 0 } else { match rng.below(5) { 0 => 0, 1 | 2 => 1, 3 => 2, _ => 3 } };
		let mut hints: Vec<RouteHint> = vec![];
		let mut hk = 0u64;
		if probe {
			// PROBE (candidate finding, see `record`): (A) a hint hop whose source is the payer over a channel we do not have, or
			// (B) a hint hop whose scid is a public channel of the payer that is not among first_hops
			let pubs: Vec<&Chan> = g0.iter().filter(|c| c.src == payer && two_way(g0, c) && c.enabled && !own.iter().any(|o| o.1 == c.scid || o.2 == Some(c.scid))).collect();
			let free = |src: usize, scid: u64| RouteHintHop { src_node_id: w.pks[src], short_channel_id: scid, fees: RoutingFees { base_msat: 0, proportional_millionths: 0 }, cltv_expiry_delta: 40, htlc_minimum_msat: None, htlc_maximum_msat: None };
			let edge = |src: usize, dst: usize, scid: u64| Chan { kind: Kind::Hint, scid, alt: None, src, dst, enabled: true, hmin: 0, hmax: 0, unbounded: true, cap: None, base: 0, prop: 0, cltv: 40 };
			let off: Vec<&Chan> = g0.iter().filter(|c| !c.enabled && c.src != payer && c.dst != payer && two_way(g0, c)).collect();
			let (src, mid, scid) = if !off.is_empty() && rng.chance(1, 3) { let c = *rng.pick(&off); let y = (0..n).find(|y| *y != payee && *y != payer && *y != c.dst && *y != c.src).unwrap_or(c.src); (y, c.dst, c.scid) }
				else if !pubs.is_empty() && rng.chance(1, 2) { let c = *rng.pick(&pubs); let y = (0..n).find(|y| *y != payee && *y != payer && *y != c.dst).unwrap_or(payer); (y, c.dst, c.scid) }
				else { let x = { let x = rng.below(n as u64) as usize; if x == payer { payee } else { x } }; (payer, x, 3_000_900) };
			let mut hops = vec![free(src, scid)]; g.push(edge(src, mid, scid));
			if mid != payee { hops.push(free(mid, 3_000_901)); g.push(edge(mid, payee, 3_000_901)); }
			if src != payee { hints.push(RouteHint(hops)); } else { g.truncate(g.len() - if mid != payee { 2 } else { 1 }); }
		}
		for _ in 0..n_hints {
			// nodes of the chain: src_0 -> src_1 -> … -> payee
			let mut chain: Vec<usize> = vec![];
			let own_first = !own.is_empty() && rng.chance(2, 5);
			let mut own_pick: Option<(usize, u64, Option<u64>)> = None;
			// a hint whose first hop is one of OUR channels (payer -> that channel's peer), named by alias or real scid below
			if own_first { let o = *rng.pick(&own); own_pick = Some(o); chain.push(payer); if o.0 != payee { chain.push(o.0); } }
			let extra = match rng.below(4) { 0 => 0, 1 | 2 => 1, _ => 2 };
			let n_extra = if own_first { if chain.len() == 1 { 0 } else { extra.min(1) } } else { extra.max(1) };
			for _ in 0..n_extra {
				let x = if rng.chance(1, 2) { rng.below(n as u64) as usize } else { rng.below(nmax as u64) as usize };
				if x != payee && x != payer && !chain.contains(&x) { chain.push(x); }
			}
			if chain.is_empty() { continue; }
			let mut hops: Vec<RouteHintHop> = vec![];
			for (i, &src) in chain.iter().enumerate() {
				let dst = if i + 1 < chain.len() { chain[i + 1] } else { payee };
				hk += 1;
				let naming_own = i == 0 && own_pick.is_some();
				// a hint may name a channel of the graph that leads to the hint's target (it becomes a PublicHop candidate) — but (outside
				// probes) not one of the payer's own public channels nor a disabled one (see `record`); a hint that merely REUSES the scid of
				// an unrelated public channel is not generated: the router's CandidateHopId (scid, direction) then conflates the private hop
				// and the public channel in `used_liquidities` and trips its own `debug_assert!(*used_liquidity_msat <= hop_max_msat)`
				// (observed on the unchanged tree; over-counting only, not a C16 clause)
				let to_dst: Vec<u64> = g0.iter().filter(|c| c.dst == dst && two_way(g0, c)).map(|c| c.scid).collect();
				let scid = if naming_own { let o = own_pick.unwrap(); match o.2 { Some(real) if rng.chance(1, 2) => real, _ => o.1 } }
					else if rng.chance(1, 10) && !to_dst.is_empty() { let s = *rng.pick(&to_dst); if own.iter().any(|o| o.1 == s || o.2 == Some(s)) || g0.iter().any(|d| d.scid == s && (!d.enabled || (has_first && (d.src == payer || d.dst == payer)))) { 3_000_000 + hk } else { s } } else { 3_000_000 + hk };
				let base = match rng.below(5) { 0 => 0, 1 => 1000, 2 => rng.below(5000), 3 => rng.below(amt.min(u32::MAX as u64) / 20 + 1), _ => 1 };
				let prop = match rng.below(5) { 0 => 0, 1 => 100, 2 => rng.below(5000), 3 => rng.below(200_000), _ => 1 };
				let cltv = match rng.below(4) { 0 => 0, 1 => 40, 2 => rng.below(300), _ => 144 };
				let hmin = match rng.below(6) { 0 => Some(near(rng, amt)), 1 => Some(rng.below(amt + 1)), 2 => Some(1), 3 => Some(0), _ => None };
				let hmax = match rng.below(6) { 0 => Some(near(rng, amt).max(1)), 1 => Some(near(rng, amt / 2 + 1).max(1)), 2 => Some(rng.range(1, 2 * amt + 1)), 3 => Some(amt.saturating_mul(rng.range(2, 1000))), _ => None };
				let (hmin, hmax) = if roomy { (hmin.map(|m| m.min(amt)), hmax.map(|m| m.max(amt.saturating_mul(100_000).saturating_add(1_000_000_000)))) } else { (hmin, hmax) };
				hops.push(RouteHintHop { src_node_id: w.pks[src], short_channel_id: scid, fees: RoutingFees { base_msat: base as u32, proportional_millionths: prop as u32 }, cltv_expiry_delta: cltv as u16, htlc_minimum_msat: hmin, htlc_maximum_msat: hmax });
				// get_route step (1): a hint whose scid is a channel of the graph directed to the hint's target becomes a PublicHop candidate with
				// the GRAPH's data (`network_channels.get(&scid).and_then(|c| c.as_directed_to(target))`) — already among the candidates; the
				// private hop the hint describes is then NOT a candidate
				let replaced = g0.iter().any(|c| c.scid == scid && c.dst == dst && two_way(g0, c));
				if !(replaced && !naming_own) { g.push(Chan { kind: Kind::Hint, scid, alt: None, src, dst, enabled: true, hmin: hmin.unwrap_or(0), hmax: hmax.unwrap_or(0), unbounded: hmax.is_none(), cap: None, base, prop, cltv }); }
			}
			hints.push(RouteHint(hops));
		}
		if !hints.is_empty() { pp = pp.with_route_hints(hints).unwrap(); }
		q_payee = payee; q_finalcltv = finalcltv as u64;
	}
	pp.max_path_count = match rng.below(5) { 0 => 1, 1 => 2, 2 => rng.range(1, 10) as u8, _ => 10 };
	let plain = roomy || rng.chance(1, 2);
	if !plain {
		pp.max_total_cltv_expiry_delta = match rng.below(5) { 0 => q_finalcltv as u32 + rng.below(300) as u32, 1 => 1_000_000, 2 => q_finalcltv as u32 + 1 + rng.below(120) as u32, _ => 1008 };
		pp.max_path_length = match rng.below(5) { 0 => rng.range(1, 4) as u8, 1 => rng.range(1, 19) as u8, _ => 19 };
	}
	pp.max_channel_saturation_power_of_half = match rng.below(4) { 0 => 0, 1 => rng.below(4) as u8, _ => 2 };
	if roomy { pp.max_channel_saturation_power_of_half = rng.below(2) as u8; }
	if !roomy && rng.chance(1, 4) { for _ in 0..rng.range(1, 3) { let c = rng.pick(&g); if c.kind.is_blinded() { pp.previously_failed_blinded_path_idxs.push(c.scid); } else { pp.previously_failed_channels.push(if c.kind == Kind::First && rng.chance(1, 3) { c.alt.unwrap_or(c.scid) } else { c.scid }); } } }
	let maxfee = if roomy { None } else if plain { if rng.chance(1, 2) { None } else { Some(amt / 100 + 50_000) } } else { match rng.below(6) { 0 => None, 1 => Some(rng.below(2000)), 2 => Some(amt / 100 + 50_000), 3 => Some(rng.below(amt / 10 + 10)), 4 => Some(0), _ => None } };
	let params = RouteParameters { payment_params: pp.clone(), final_value_msat: amt, max_total_routing_fee_msat: maxfee };
	let q = Req { payer, payee: q_payee, amt, maxfee, maxcltv: pp.max_total_cltv_expiry_delta as u64, maxpaths: pp.max_path_count as u64, maxlen: pp.max_path_length as u64, finalcltv: q_finalcltv, excluded: pp.previously_failed_channels.clone(),
		has_first, excluded_blinded: pp.previously_failed_blinded_path_idxs.clone(), mpp, satpow: pp.max_channel_saturation_power_of_half, scorer: 0, seed0: 0 };
	(q, g, params, if has_first { Some(details) } else { None }, blinding_points)
}

/// Deterministic minimal inputs of the known findings KF-C16-7 … 11: a fixed small graph + request each, run through the REAL
/// find_route at the start of every c16router run and judged by `record` like any generated case (so both checkers see them).
/// (name, expectation on the unchanged router, op line in the `noroute` form that `parse_case` turns into the router's inputs)
const PROBES: &[(&str, &str, &str)] = &[
	// 0 payer, 1 first-hop peer, 2 payee; the 1->2 channel costs 1000 msat; a free hint hop 0 -> 2 over a channel that is NOT among first_hops
	// (NOT a finding — the false alarm KF-C16-7/A, DESIGN 9.2: a route hint hop that starts at the payer is a way to the payee the property names; must stay VALID)
	("FA-C16-7/A hint hop starting at the payer (admissible: through a route hint)", "VALID route whose only hop is hint channel 3000900 (first_hops supplied, the hint is cheaper)",
	 "noroute 0 2 1000 - 1008 1 19 40 1 0 0 1 0 X 0 B 0 G 6 p 1 - 0 1 1 0 1000000 - 0 0 40 p 1 - 1 0 1 0 1000000 - 0 0 40 p 2 - 1 2 1 0 1000000 - 1000 0 40 p 2 - 2 1 1 0 1000000 - 0 0 40 f 2000001 1000001 0 1 1 0 1000000 - 0 0 0 h 3000900 - 0 2 1 0 - - 0 0 40"),
	// as before, plus public channel 3 between payer and payee (not in first_hops); the hint (source: node 1) names scid 3
	("KF-C16-7/B hint naming a public channel of the payer outside first_hops", "route payer -> payee over graph channel 3 although first_hops (one channel, to node 1) was supplied",
	 "noroute 0 2 1000 - 1008 1 19 40 1 0 0 1 0 X 0 B 0 G 8 p 1 - 0 1 1 0 1000000 - 0 0 40 p 1 - 1 0 1 0 1000000 - 0 0 40 p 2 - 1 2 1 0 1000000 - 1000 0 40 p 2 - 2 1 1 0 1000000 - 0 0 40 p 3 - 0 2 1 0 1000000 - 0 0 40 p 3 - 2 0 1 0 1000000 - 0 0 40 f 2000001 1000001 0 1 1 0 1000000 - 0 0 0 h 3 - 1 2 1 0 - - 0 0 40"),
	// no first_hops; channel 2 is DISABLED in the direction 1 -> 2 (the only way to the payee); the hint names scid 2
	("KF-C16-7/C hint naming a public channel whose direction is disabled", "route 0 -> 1 -> 2 over the disabled direction of channel 2",
	 "noroute 0 2 1000 - 1008 1 19 40 0 0 0 1 0 X 0 B 0 G 5 p 1 - 0 1 1 0 1000000 - 0 0 40 p 1 - 1 0 1 0 1000000 - 0 0 40 p 2 - 1 2 0 0 1000000 - 0 0 40 p 2 - 2 1 1 0 1000000 - 0 0 40 h 2 - 1 2 1 0 - - 0 0 40"),
	// 8 msat in at most 2 paths (minimal contribution 4); three disjoint 2-hop paths 0 -> m -> 4 whose first channel carries at most 5 and whose
	// second channel charges 1 msat + 1 ppm: add_entry! admits 4 (+1 fee = 5), max_final_value_msat returns floor(4000001/1000001) = 3
	("KF-C16-8 contribution rounded below the minimal contribution", "three paths for max_path_count 2 (debug assertion paths.len() <= max_path_count; a 3-path route in a release build)",
	 "noroute 0 4 8 - 1008 2 19 40 0 1 0 1 0 X 0 B 0 G 12 p 1 - 0 1 1 0 5 - 0 0 40 p 1 - 1 0 1 0 5 - 0 0 40 p 2 - 0 2 1 0 5 - 0 0 40 p 2 - 2 0 1 0 5 - 0 0 40 p 3 - 0 3 1 0 5 - 0 0 40 p 3 - 3 0 1 0 5 - 0 0 40 p 4 - 1 4 1 0 1000000 - 1 1 40 p 4 - 4 1 1 0 1000000 - 0 0 40 p 5 - 2 4 1 0 1000000 - 1 1 40 p 5 - 4 2 1 0 1000000 - 0 0 40 p 6 - 3 4 1 0 1000000 - 1 1 40 p 6 - 4 3 1 0 1000000 - 0 0 40"),
	// max_path_length 1; first hop 0 -> 1; blinded path 0 starts at node 1 and costs 5000 msat, blinded path 1 starts at node 2 and is free;
	// channel 5 joins 1 and 2 for 1 msat: the payer's entry (made for blinded path 0, length 1) is stitched to 1 -> 2 -> blinded path 1
	("KF-C16-9 first-hop entry of a blinded path stitched to a longer continuation", "path of 2 hops for max_path_length 1 (Route::debug_assert_route_meets_params; a 2-hop route in a release build)",
	 "noroute 0 999 1000 - 1008 1 1 0 1 0 0 1 0 X 0 B 0 G 5 p 5 - 1 2 1 0 1000000 - 1 0 40 p 5 - 2 1 1 0 1000000 - 1 0 40 f 2000001 1000001 0 1 1 0 1000000 - 0 0 0 b 0 - 1 999 1 0 1000000 - 5000 0 40 b 1 - 2 999 1 0 1000000 - 0 0 40"),
	// 2 msat, MPP; both channels carry at most 2; channel 2 charges 91.8132 %: two parts of 1 msat (fee floor(0.918) = 0) fit, step (8) merges
	// them into one path of 2 msat whose fee is floor(1.836) = 1: channel 1 carries 3
	("KF-C16-10 merged identical paths, fee recomputed on the sum", "one path 0 -> 1 -> 2 with fee_msat 1, 2: channel 1 carries 3 msat > htlc_maximum 2",
	 "noroute 0 2 2 - 1008 2 19 40 0 1 0 1 0 X 0 B 0 G 4 p 1 - 0 1 1 0 2 - 0 0 40 p 1 - 1 0 1 0 2 - 0 0 40 p 2 - 1 2 1 0 2 - 0 918132 40 p 2 - 2 1 1 0 2 - 0 0 40"),
	// 6 msat in 2 paths; first hop 0 -> 1 with next_outbound_htlc_minimum_msat 5 and limit 9; two branches 1 -> m -> 2 whose middle channel carries at
	// most 5 and whose last channel charges 1 msat + 1 ppm: each path is admitted with 4 (+1) = 5 = the first hop's minimum, rounded to 3 (+1) = 4
	// by max_final_value_msat, raised back to 5 by update_value_and_recompute_fees, booked as 4: the second path takes the "remaining" 5
	("KF-C16-11 raise to the first hop's own minimum not booked", "two paths that carry 5 + 5 = 10 msat over the first hop whose next_outbound_htlc_limit_msat is 9",
	 "noroute 0 2 6 - 1008 2 19 40 1 1 0 1 0 X 0 B 0 G 9 p 10 - 1 3 1 0 5 - 0 0 40 p 10 - 3 1 1 0 5 - 0 0 40 p 11 - 3 2 1 0 1000000 - 1 1 40 p 11 - 2 3 1 0 1000000 - 0 0 40 p 12 - 1 4 1 0 5 - 0 0 40 p 12 - 4 1 1 0 5 - 0 0 40 p 13 - 4 2 1 0 1000000 - 1 1 40 p 13 - 2 4 1 0 1000000 - 0 0 40 f 2000001 1000001 0 1 1 5 9 - 0 0 0"),
	// C16-r5: the payer's only channel (to node 1) currently cannot carry less than 1_000_000 msat (dust exposure nearly used up) although the
	// peer's static htlc_minimum is far lower (the decoy counterparty.outbound_htlc_minimum_msat); 100_000 msat cannot be raised to it
	("FA-C16-r5/a first hop whose CURRENT minimum is above the amount (peer's static minimum below it)", "no route (a route carrying 100000 msat over the first hop would be below its next_outbound_htlc_minimum_msat)",
	 "noroute 0 2 100000 - 1008 1 19 40 1 0 0 1 0 X 0 B 0 G 3 p 2 - 1 2 1 0 1000000000 - 0 0 40 p 2 - 2 1 1 0 1000000000 - 0 0 40 f 2000001 1000001 0 1 1 1000000 10000004 0 0 0 0"),
	// as before plus an unrestricted second channel to the same peer: the payment must go over that one
	("FA-C16-r5/b restricted first hop next to an unrestricted one to the same peer", "VALID route 0 -> 1 -> 2 whose first hop is channel 2000002",
	 "noroute 0 2 100000 - 1008 1 19 40 1 0 0 1 0 X 0 B 0 G 4 p 2 - 1 2 1 0 1000000000 - 0 0 40 p 2 - 2 1 1 0 1000000000 - 0 0 40 f 2000001 1000001 0 1 1 1000000 10000003 - 0 0 0 f 2000002 1000002 0 1 1 1000 250000000 999 0 0 0"),
];

/// C16-r5: the accessors of the FirstHop candidate built from one ChannelDetails (all fields on the line, decoys independent of each other)
fn first_hop_cases(rec: &mut Rec, rng: &mut Rng, w: &World, n: usize) {
	let o = |x: Option<u64>| x.map_or("-".to_string(), |k| k.to_string());
	// at most KF_CAP reports per kind of failure (all are counted in the notes): the recorder keeps 50 messages and the route-level failures must not be crowded out
	let (mut n_min, mut n_cap, mut n_fee) = (0u64, 0u64, 0u64);
	for i in 0..n {
		let big = |rng: &mut Rng| match rng.below(6) { 0 => 0, 1 => rng.range(1, 1000), 2 => 1000 * rng.range(1, 100_000), 3 => rng.range(1, 5_000_000_000), 4 => u64::MAX - rng.below(3), _ => rng.range(1, 50_000_000) };
		let min = big(rng);
		let limit = match rng.below(4) { 0 => near(rng, min), 1 => min.saturating_add(big(rng)), _ => big(rng) };
		// the static minimum: below / at / above the current one, or absent; the other fields: anything
		let cp_min = match rng.below(6) { 0 => None, 1 => Some(0), 2 => Some(min / 2), 3 => Some(min), 4 => Some(min.saturating_add(rng.range(1, 1000))), _ => Some(big(rng)) };
		let cp_max = match rng.below(4) { 0 => None, 1 => Some(limit), 2 => Some(limit / 2), _ => Some(big(rng)) };
		let (out_cap, in_cap, value_sat) = (match rng.below(3) { 0 => limit, 1 => limit.saturating_add(big(rng)), _ => big(rng) }, big(rng), big(rng) / 1000 + 1);
		let in_min = if rng.chance(1, 2) { None } else { Some(big(rng)) };
		let in_max = if rng.chance(1, 2) { None } else { Some(big(rng)) };
		let announced = rng.chance(1, 2);
		let (scid, alias) = match rng.below(4) { 0 => (Some(rng.range(1, 50)), None), 1 => (None, Some(2_000_000 + i as u64)), _ => (Some(rng.range(1, 50)), Some(2_000_000 + i as u64)) };
		let d = channel_details_raw(w.pks[1], scid, alias, limit, min, announced, cp_min, cp_max, out_cap, in_cap, value_sat, in_min, in_max);
		let op = format!("firsthop {} {} {} {} {} {} {} {} {} {} {} {}", min, limit, o(cp_min), o(cp_max), out_cap, in_cap, value_sat, o(in_min), o(in_max), announced as u8, o(scid), o(alias));
		match guarded(AssertUnwindSafe(|| lightning::ln::verif_hooks::router::first_hop_candidate_view(&d))) {
			Ok((m, cap, sc, gsc, fees, cltv)) => {
				let liq = match cap { EffectiveCapacity::ExactLiquidity { liquidity_msat } => Some(liquidity_msat), _ => None };
				// the property on what the real accessors returned: "every hop carries at least that channel's minimum and … no more than its maximum":
				// for a supplied first hop these are the CURRENT bounds of the ChannelDetails, and our own channel costs nothing
				if m < d.next_outbound_htlc_minimum_msat { n_min += 1; kf_fail(rec, n_min, format!("CandidateRouteHop::FirstHop: htlc_minimum_msat() = {} is BELOW the supplied ChannelDetails' next_outbound_htlc_minimum_msat {} (counterparty.outbound_htlc_minimum_msat {:?}): a route may carry less than the channel's current minimum over this first hop | {}", m, d.next_outbound_htlc_minimum_msat, cp_min, op)); }
				if liq.map_or(true, |l| l > d.next_outbound_htlc_limit_msat) { n_cap += 1; kf_fail(rec, n_cap, format!("CandidateRouteHop::FirstHop: effective_capacity() = {:?} allows more than the supplied ChannelDetails' next_outbound_htlc_limit_msat {}: a route may carry more than the channel's current maximum over this first hop | {}", cap, d.next_outbound_htlc_limit_msat, op)); }
				if fees != (0, 0) || cltv != 0 { n_fee += 1; kf_fail(rec, n_fee, format!("CandidateRouteHop::FirstHop: fees {:?} / cltv_expiry_delta {} for our own channel | {}", fees, cltv, op)); }
				let class = format!("firsthop:static-min-{}/{}", match cp_min { None => "absent", Some(x) if x < min => "below-current", Some(x) if x == min => "equal", _ => "above-current" }, if limit < min { "limit<min" } else { "limit>=min" });
				rec.case(&op, &format!("min {} cap {} scid {} gscid {} fees {} {} cltv {}", m, liq.map_or("other".to_string(), |l| format!("exact {}", l)), o(sc), o(gsc), fees.0, fees.1, cltv), &class, cp_min != Some(min));
			},
			Err(p) => { rec.case(&op, &format!("panic {}", p.replace('\n', " ")), "firsthop:panic", true); },
		}
	}
	rec.notes.insert("firsthop".into(), format!("{} ChannelDetails with independently drawn fields through the real CandidateRouteHop::FirstHop accessors: minimum below the current one {} times, liquidity above the current limit {} times, fees/cltv non-zero {} times (at most {} reported each)", n, n_min, n_cap, n_fee, KF_CAP));
}

/// C16-r6: `sort_first_hop_channels` (hook router::sort_first_hop_channels, /repo commit b1076c7) — the REAL ordering of the caller's channels
/// against the translated comparator (Lean `sortFirstHops`); used_liquidities entries under the right key, the wrong direction, another scid
fn sort_first_hop_cases(rec: &mut Rec, rng: &mut Rng, w: &World, n: usize) {
	let mut n_bad = 0u64;
	for _ in 0..n {
		let our = w.pks[0];
		let recv = match rng.below(5) { 0 => 0, 1 => rng.range(1, 1000), 2 => 3 * rng.range(1000, 100_000), 3 => u64::MAX - rng.below(2), _ => rng.range(1, 50_000_000) };
		let k = 1 + rng.below(6) as usize;
		let mut details: Vec<ChannelDetails> = vec![];
		let mut used: Vec<(u64, bool, u64)> = vec![];
		for j in 0..k {
			let peer = w.pks[1 + rng.below(3) as usize];
			let limit = match rng.below(6) { 0 => near(rng, recv), 1 => rng.range(0, recv.max(1).min(u64::MAX - 1)), 2 => recv.saturating_add(rng.range(0, 1_000_000)), 3 => u64::MAX - rng.below(2), 4 => details.last().map_or(7, |d: &ChannelDetails| d.next_outbound_htlc_limit_msat), _ => rng.range(0, 100_000_000) };
			let (scid, alias) = match rng.below(3) { 0 => (Some(100 + j as u64), None), 1 => (None, Some(2_000_000 + j as u64)), _ => (Some(100 + j as u64), Some(2_000_000 + j as u64)) };
			let d = channel_details(peer, scid, alias, limit, 0, rng.chance(1, 2));
			let (pscid, dir) = (d.get_outbound_payment_scid().unwrap(), our < peer);
			let amt = match rng.below(5) { 0 => near(rng, limit), 1 => near(rng, limit.saturating_sub(recv)), 2 => u64::MAX, 3 => rng.range(0, 1000), _ => rng.range(0, limit.max(1).min(u64::MAX - 1)) };
			match rng.below(6) { 0 | 1 => used.push((pscid, dir, amt)), 2 => used.push((pscid, !dir, amt)), 3 => used.push((scid.unwrap_or(77), dir, amt)), _ => {} }
			details.push(d);
		}
		{ let mut seen: HashSet<(u64, bool)> = HashSet::new(); used.retain(|(s, d, _)| seen.insert((*s, *d))); }
		let remaining = |d: &ChannelDetails| d.next_outbound_htlc_limit_msat.saturating_sub(used.iter().find(|(s, dr, _)| *s == d.get_outbound_payment_scid().unwrap() && *dr == (our < d.counterparty.node_id)).map_or(0, |u| u.2));
		let op = format!("sortfh {} U {}{} C {}{}", recv, used.len(), used.iter().map(|(s, d, a)| format!(" {} {} {}", s, *d as u8, a)).collect::<String>(), k,
			details.iter().map(|d| format!(" {} {} {}", d.get_outbound_payment_scid().unwrap(), (our < d.counterparty.node_id) as u8, d.next_outbound_htlc_limit_msat)).collect::<String>());
		let mut refs: Vec<&ChannelDetails> = details.iter().collect();
		match guarded(AssertUnwindSafe(|| { lightning::ln::verif_hooks::router::sort_first_hop_channels(&mut refs, &used, recv, &our); refs.iter().map(|d| remaining(d)).collect::<Vec<u64>>() })) {
			Ok(out) => {
				let suff: Vec<u64> = details.iter().map(|d| remaining(d)).filter(|x| *x >= recv).collect();
				// the function's documented purpose, on what the real sort did: nothing dropped, and if a channel still covers the recommended value the first one is the smallest that does
				let mut a = out.clone(); a.sort(); let mut b: Vec<u64> = details.iter().map(|d| remaining(d)).collect(); b.sort();
				if a != b || suff.iter().min().map_or(false, |m| out[0] != *m) { n_bad += 1; kf_fail(rec, n_bad, format!("sort_first_hop_channels: remaining limits after the sort {:?} (recommended {}): {} | {}", out, recv, if a != b { "not a permutation of the input" } else { "a channel covers the recommended value but the first one is not the smallest that does" }, op)); }
				let class = format!("sortfh:{}/{}", if suff.is_empty() { "none-sufficient" } else if suff.len() == k { "all-sufficient" } else { "mixed" }, if used.iter().any(|(s, dr, a)| *a > 0 && details.iter().any(|d| d.get_outbound_payment_scid().unwrap() == *s && (our < d.counterparty.node_id) == *dr)) { "used-liquidity-counts" } else { "no-used-entry" });
				rec.case(&op, &format!("sorted{}", out.iter().map(|x| format!(" {}", x)).collect::<String>()), &class, k > 1);
			},
			Err(p) => { rec.case(&op, &format!("panic {}", p.replace('\n', " ")), "sortfh:panic", true); },
		}
	}
	rec.notes.insert("sortfh".into(), format!("{} channel sets through the real sort_first_hop_channels; documented order violated {} times", n, n_bad));
}

/// the raw ChannelUpdateInfo::htlc_maximum_msat of the direction of `ci` TOWARDS `to`
fn hmax_raw(ci: &lightning::routing::gossip::ChannelInfo, to: &NodeId) -> u64 { if *to == ci.node_two { ci.one_to_two.as_ref().map_or(0, |u| u.htlc_maximum_msat) } else { ci.two_to_one.as_ref().map_or(0, |u| u.htlc_maximum_msat) } }

/// C16-r5b: counts the router's own summary line "Ignored N candidate hops due to insufficient value contribution, …" (get_route, after the
/// search): [value contribution, path length, CLTV delta, previous failure, htlc_minimum, avoid overpaying, total fee] — evidence that a
/// guard of add_entry! was reached by a probe
struct GuardLogger;
static GUARD_COUNTS: std::sync::Mutex<[u64; 7]> = std::sync::Mutex::new([0; 7]);
impl lightning::util::logger::Logger for GuardLogger {
	fn log(&self, r: lightning::util::logger::Record) {
		let t = format!("{}", r.args);
		if let Some(rest) = t.strip_prefix("Ignored ") {
			let nums: Vec<u64> = rest.split(|c: char| !c.is_ascii_digit()).filter(|x| !x.is_empty()).filter_map(|x| x.parse().ok()).collect();
			// numbers in the text: the 7 counters (the text also contains no other digits before "Total")
			if nums.len() >= 7 { let mut g = GUARD_COUNTS.lock().unwrap(); for i in 0..7 { g[i] += nums[i]; } }
		}
	}
}
static GUARD: GuardLogger = GuardLogger;
const GUARD_NAMES: [&str; 7] = ["value-contribution", "path-length", "cltv-delta", "previously-failed", "htlc-minimum", "avoid-overpaying", "total-fee"];

/// C16-r5b: requests that aim at each guard of add_entry! exactly AT its boundary and 1 beyond it, through the real find_route, on the line
/// 0 -f-> 1 -p2-> 2 -p3-> 3 (payee). Every outcome is judged by `record` (a returned route must satisfy every clause); a request that meets
/// the guard exactly must get a route (the only path is sufficient and no other limit binds).
fn guard_cases(rec: &mut Rec, st: &mut Stats, w: &World, secp: &Secp256k1<bitcoin::secp256k1::All>, rng: &mut Rng, k: usize) {
	let mut scratch: Vec<lightning::routing::router::Path> = vec![];
	for _ in 0..k {
		let amt = match rng.below(3) { 0 => rng.range(2, 50), 1 => rng.range(1000, 100_000), _ => rng.range(1_000_000, 50_000_000) };
		let fee = rng.range(1, 2000);
		for (guard, deltas) in [("htlc_minimum", [-1i64, 0, 1]), ("contribution", [-1, 0, 1]), ("cltv", [-1, 0, 1]), ("path_length", [-1, 0, 1]), ("fee", [-1, 0, 1]), ("first_hop_minimum", [-1, 0, 1]), ("first_hop_limit", [-1, 0, 1]), ("htlc_minimum_over_recommended", [-1, 0, 1]), ("excluded", [0, 0, 0])] {
			for (di, d) in deltas.iter().enumerate() {
				if guard == "excluded" && di > 0 { continue; }
				let adj = |x: u64| (x as i64 + d) as u64;
				// defaults: roomy
				let big = amt.saturating_mul(1000) + 1_000_000_000;
				let (mut min2, mut max2, mut fmin, mut flim, mut maxcltv, mut maxlen, mut maxfee, mut base3, mut excl) = (0u64, big, 0u64, big, 1008u64, 19u64, "-".to_string(), 0u64, String::from("X 0"));
				// `slack >= 0` = the guard is met (exactly when 0)
				let slack: i64 = match guard {
					"htlc_minimum" => { min2 = adj(amt); -d },                       // channel 2 needs at least amt + d
					"contribution" => { max2 = adj(amt); *d },                       // channel 2 carries at most amt + d
					"cltv" => { maxcltv = adj(40 + 80 + 80); *d },                    // final 40 + shadow reserve 80 + the two forwarding deltas 40 + 40
					"path_length" => { maxlen = adj(3); *d },
					"fee" => { base3 = fee; maxfee = adj(fee).to_string(); *d },
					// C16-r6: channel 2 needs 3·amt + d; recommended_value_msat = 3·amt: above it (d = 1) the candidate falls through BOTH minimum
					// branches of add_entry! into the final `else` (counter `htlc-minimum`, router.rs num_ignored_htlc_minimum_msat_limit); never met by amt
					"htlc_minimum_over_recommended" => { min2 = adj(amt.saturating_mul(3)); -2 - d },
					"first_hop_minimum" => { fmin = adj(amt); -d },
					"first_hop_limit" => { flim = adj(amt); *d },
					_ => { excl = "X 1 3".to_string(); -1 },
				};
				let line = format!("noroute 0 3 {} {} {} 1 {} 40 1 0 0 1 0 {} B 0 G 5 p 2 - 1 2 1 {} {} - 0 0 40 p 2 - 2 1 1 0 {} - 0 0 40 p 3 - 2 3 1 0 {} - {} 0 40 p 3 - 3 2 1 0 {} - 0 0 40 f 2000001 1000001 0 1 1 {} {} - 0 0 0",
					amt, maxfee, maxcltv, maxlen, excl, min2, max2, big, big, base3, big, fmin, flim);
				let c = match parse_case(&line, w, secp, &GUARD) { Some(c) => c, None => continue };
				let mut g: Vec<Chan> = dump_graph(&c.ng, w);
				g.extend(c.g.iter().filter(|x| x.kind != Kind::Pub).cloned());
				let gs = graph_str(&g);
				*GUARD_COUNTS.lock().unwrap() = [0; 7];
				let res = run_case(&c, w, &GUARD);
				let counts = *GUARD_COUNTS.lock().unwrap();
				let hit: Vec<&str> = (0..7).filter(|i| counts[*i] > 0).map(|i| GUARD_NAMES[i]).collect();
				let outcome = match &res { Ok(Ok(_)) => "route", Ok(Err(_)) => "noroute", Err(_) => "panic" };
				*rec.classes.entry(format!("guard:{}/{}:{}/ignored-by[{}]", guard, if guard == "htlc_minimum_over_recommended" { ["minimum=3amt-1", "minimum=3amt", "minimum=3amt+1"][di] } else if slack > 0 { "1-inside" } else if slack == 0 { "exactly-at" } else { "1-beyond" }, outcome, hit.join(","))).or_insert(0) += 1;
				// the final `else` of add_entry!'s chain must be what turns the candidate away once its minimum exceeds recommended_value_msat
				if guard == "htlc_minimum_over_recommended" && *d == 1 && (counts[4] == 0 || outcome == "route") { rec.oracle_fail(format!("guard probe htlc_minimum_over_recommended: channel 2 needs {} msat > recommended_value_msat {} but the router's htlc-minimum counter is {} and find_route answered {} | noroute {} {}", min2, amt.saturating_mul(3), counts[4], outcome, req_str(&c.q), gs)); }
				if slack >= 0 && outcome != "route" { rec.oracle_fail(format!("guard probe {} ({}): the only path 0 -> 1 -> 2 -> 3 meets every limit ({} exactly at its boundary) but find_route answered {:?}; router's ignored-candidate counters {:?} | noroute {} {}", guard, if slack == 0 { "exactly at" } else { "1 inside" }, guard, res.as_ref().map(|r| r.as_ref().map(|_| "route")), counts, req_str(&c.q), gs)); }
				record(rec, st, w, &g, &gs, &c.q, 4, true, true, &c.blinding_points, res, &mut scratch);
			}
		}
	}
}

/// C16-r5b: find_route = get_route + add_random_cltv_offset. Against the raw search (hook get_route_raw, same inputs): the offset only ever
/// RAISES the last RouteHop's cltv_expiry_delta, never past max_total_cltv_expiry_delta, and changes nothing else. A raw search that chose
/// other channels (hash-map order) is not compared.
fn cltv_offset_check(rec: &mut Rec, found: &Route, raw: Result<Result<Route, &'static str>, String>, q: &Req, input: &str) {
	let raw = match raw { Ok(Ok(r)) => r, _ => { *rec.classes.entry("cltvoffset:raw-search-differs(not compared)".into()).or_insert(0) += 1; return; } };
	let scids = |r: &Route| -> Vec<Vec<u64>> { r.paths.iter().map(|p| p.hops.iter().map(|h| h.short_channel_id).collect()).collect() };
	if scids(found) != scids(&raw) { *rec.classes.entry("cltvoffset:raw-search-differs(not compared)".into()).or_insert(0) += 1; return; }
	let mut added = false;
	for (pf, pr) in found.paths.iter().zip(raw.paths.iter()) {
		let n = pf.hops.len();
		for j in 0..n {
			let (a, b) = (&pf.hops[j], &pr.hops[j]);
			if a.fee_msat != b.fee_msat || a.pubkey != b.pubkey { rec.oracle_fail(format!("add_random_cltv_offset changed more than a CLTV delta: hop {} of path {:?} has fee_msat {} (raw search: {}) | {}", j, scids(found), a.fee_msat, b.fee_msat, input)); return; }
			if j + 1 < n && a.cltv_expiry_delta != b.cltv_expiry_delta { rec.oracle_fail(format!("add_random_cltv_offset changed the cltv_expiry_delta of a NON-final hop: hop {} {} -> {} | {}", j, b.cltv_expiry_delta, a.cltv_expiry_delta, input)); return; }
			if j + 1 == n && a.cltv_expiry_delta < b.cltv_expiry_delta { rec.oracle_fail(format!("add_random_cltv_offset LOWERED the final cltv_expiry_delta {} -> {} | {}", b.cltv_expiry_delta, a.cltv_expiry_delta, input)); return; }
			if j + 1 == n && a.cltv_expiry_delta > b.cltv_expiry_delta { added = true; }
		}
		let (tf, tr): (u64, u64) = (pf.hops.iter().map(|h| h.cltv_expiry_delta as u64).sum(), pr.hops.iter().map(|h| h.cltv_expiry_delta as u64).sum());
		if tr <= q.maxcltv && tf > q.maxcltv { rec.oracle_fail(format!("add_random_cltv_offset pushed the path's total CLTV delta {} -> {} past max_total_cltv_expiry_delta {} | {}", tr, tf, q.maxcltv, input)); return; }
	}
	*rec.classes.entry(if added { "cltvoffset:offset-added(final hop only, within the limit)" } else { "cltvoffset:no-offset" }.into()).or_insert(0) += 1;
}

fn router_model(args: &Args) {
	let mut rec = Rec::new(&args.out, "c16router");
	let mut rng = Rng::new(args.seed ^ 0x0c16);
	// the extended requests draw from their own generator: the v1 requests (and so KF-C16-5's inputs) stay what they were
	let mut rng2 = Rng::new(args.seed ^ 0xc16e_87);
	let secp = Secp256k1::new();
	let nmax = 40usize;
	let mut pks = vec![];
	for i in 0..nmax { let mut sk = [0u8; 32]; sk[31] = (i + 1) as u8; sk[0] = 0x42; pks.push(PublicKey::from_secret_key(&secp, &SecretKey::from_slice(&sk).unwrap())); }
	let blind_pks: Vec<PublicKey> = (0..12usize).map(|i| { let mut sk = [0u8; 32]; sk[31] = (i + 1) as u8; sk[0] = 0x43; PublicKey::from_secret_key(&secp, &SecretKey::from_slice(&sk).unwrap()) }).collect();
	let ids: Vec<NodeId> = pks.iter().map(|p| NodeId::from_pubkey(p)).collect();
	let index: HashMap<NodeId, usize> = ids.iter().enumerate().map(|(i, id)| (*id, i)).collect();
	let w = World { pks, ids, index };
	let chain = ChainHash::using_genesis_block(Network::Testnet);
	let n_graphs = if args.thorough { 8000 } else { 1500 } * args.scale;
	let per_graph = if args.thorough { 14 } else { 10 };
	let per_graph_ext = if args.thorough { 12 } else { 8 };
	let mut st = Stats { n_ok: 0, n_err: 0, n_panic: 0, n_multi: 0, n_raise: 0, n_first: 0, n_hint: 0, n_blinded: 0, n_alias_real: 0, n_probe: 0, n_bypass: 0, bypass_example: String::new(), n_all_ample: 0, n_count_rounding: 0, count_rounding_example: String::new(), n_stitch: 0, stitch_example: String::new(), n_merge: 0, merge_example: String::new(), n_ownmin: 0, ownmin_example: String::new(), debug_asserts: std::collections::BTreeMap::new() };
	let (mut n_ext, mut n_fed, mut n_inflight) = (0u64, 0u64, 0u64);
	// the generated `matches_an_scid` (get_route step (1)) against the property's reading: a hint names our channel by alias OR real scid
	for _ in 0..if args.thorough { 2000 } else { 300 } {
		let o = |rng: &mut Rng| match rng.below(4) { 0 => None, _ => Some(rng.range(1, 6)) };
		let (a, sc, h) = (o(&mut rng2), o(&mut rng2), rng2.range(1, 6));
		let want = a == Some(h) || sc == Some(h);
		rec.case(&format!("matchscid {} {} {}", a.map_or("-".into(), |x| x.to_string()), sc.map_or("-".into(), |x| x.to_string()), h), if want { "1" } else { "0" }, if want { "matchscid:own-channel" } else { "matchscid:other" }, true);
	}
	{ let mut rng3 = Rng::new(args.seed ^ 0xc16f_1857); first_hop_cases(&mut rec, &mut rng3, &w, if args.thorough { 4000 } else { 600 }); }
	{ let mut rng5 = Rng::new(args.seed ^ 0xc16_50f7); sort_first_hop_cases(&mut rec, &mut rng5, &w, if args.thorough { 4000 } else { 600 }); }
	// the deterministic probes of the known findings (fixed inputs; the graph on the line is dumped from NetworkGraph::read_only())
	for (k, (name, expect, line)) in PROBES.iter().enumerate() {
		let c = parse_case(line, &w, &secp, &LOGGER).expect("probe line");
		let mut g: Vec<Chan> = dump_graph(&c.ng, &w);
		g.extend(c.g.iter().filter(|x| x.kind != Kind::Pub).cloned());
		let gs = graph_str(&g);
		let nodes: usize = { let mut s: HashSet<usize> = g.iter().flat_map(|c| [c.src, c.dst]).collect(); s.insert(c.q.payer); s.insert(c.q.payee); s.len() };
		let res = run_case(&c, &w, &LOGGER);
		let outcome = match &res { Err(p) => format!("panic: {}", p.replace('\n', " ")), Ok(Err(e)) => format!("no route ({})", e), Ok(Ok(route)) => { let r = to_hops(route, &w, &c.blinding_points); format!("{} -> {}", route_str(&r), match recheck(&g, &c.q, &r) { Ok(()) => "valid".to_string(), Err((cl, d)) => format!("invalid {}: {}", cl, d) }) } };
		let before = rec.oracle_failures.len();
		let mut scratch: Vec<lightning::routing::router::Path> = vec![];
		record(&mut rec, &mut st, &w, &g, &gs, &c.q, nodes, true, true, &c.blinding_points, res, &mut scratch);
		// a probe that documents admissible / required behaviour (FA-…) and expects a VALID route must get one (C16-r5/b: a sufficient first hop exists)
		if name.starts_with("FA-") && expect.starts_with("VALID route") && !outcome.ends_with("-> valid") { rec.oracle_fail(format!("probe {}: expected {} but the router answered: {} | {} {}", name, expect, outcome, req_str(&c.q), gs)); }
		let reproduced = rec.oracle_failures.len() > before;
		rec.notes.insert(format!("probe_{}", k + 1), format!("{}: {} | unchanged router: {} | this run: {} | input: {} {}", name, if reproduced { "REPRODUCED (oracle failure)" } else if name.starts_with("FA-") && outcome.contains("invalid") { "INVALID route" } else if name.starts_with("FA-") { "valid, as it must be" } else { "not reproduced (the router no longer shows it)" }, expect, outcome, req_str(&c.q), gs));
	}
	{ let mut rng4 = Rng::new(args.seed ^ 0xc16_6a2d); guard_cases(&mut rec, &mut st, &w, &secp, &mut rng4, if args.thorough { 40 } else { 6 }); }
	for _ in 0..n_graphs {
		let n = match rng.below(10) { 0..=5 => rng.range(4, 9), 6..=8 => rng.range(10, 20), _ => rng.range(21, 40) } as usize;
		let amt_hint = match rng.below(6) { 0 => rng.range(1, 20), 1 => rng.range(1000, 100_000), 2 => 1000 * rng.range(1, 1_000_000), 3 => rng.range(1, 5_000_000_000), _ => rng.range(10_000, 50_000_000) };
		let profile = match rng.below(10) { 0..=3 => 0, 4..=7 => 1, _ => 2 };
		// fan family: k parallel payer–payee channels whose limit sits at ⌊V/np⌋ / ⌈V/np⌉ (±1) with k > np: the
		// fragmentation bound (a route has at most max_path_count paths) is tight exactly there
		let fan: Option<(u64, u8)> = if rng.chance(1, 8) { let np = rng.range(2, 6) as u8; let v = rng.range(np as u64 * 3, 200_000) * if rng.chance(1, 2) { 1 } else { 1000 } + rng.range(1, np as u64 - 1); Some((v, np)) } else { None };
		let ng = match fan { Some((v, np)) => build_fan_graph(&mut rng, &w, n, chain, v, np), None => build_graph(&mut rng, &w, n, amt_hint, chain, profile) };
		let g = dump_graph(&ng, &w);
		if g.is_empty() { rec.discarded += 1; continue; }
		let gs = graph_str(&g);
		// C16-r5b: the REAL DirectedChannelInfo::effective_capacity of up to 4 channel directions of this graph against the translated function
		{ let ro = ng.read_only(); let mut k = 0;
		  for (scid, ci) in ro.channels().unordered_iter() { if k >= 4 { break; }
			for to in [&ci.node_one, &ci.node_two] { if let Some((dir, _)) = ci.as_directed_to(to) { k += 1;
				let cap = dir.effective_capacity();
				let ans = match cap { EffectiveCapacity::Total { capacity_msat, htlc_maximum_msat } => format!("total {} {}", capacity_msat, htlc_maximum_msat), EffectiveCapacity::AdvertisedMaxHTLC { amount_msat } => format!("adv {}", amount_msat), _ => "other".to_string() };
				let lim = vr::max_htlc_from_capacity(cap, 0);
				let want = ci.capacity_sats.map_or(hmax_raw(ci, to), |s| hmax_raw(ci, to).min(s * 1000));
				if lim > want { rec.oracle_fail(format!("DirectedChannelInfo::effective_capacity: channel {} may carry {} msat > min(htlc_maximum_msat {}, capacity {:?} sat)", scid, lim, hmax_raw(ci, to), ci.capacity_sats)); }
				rec.case(&format!("pubcap {} {}", hmax_raw(ci, to), ci.capacity_sats.map_or("-".to_string(), |s| s.to_string())), &format!("{} max {}", ans, lim), if ci.capacity_sats.is_some() { "pubcap:total" } else { "pubcap:advertised" }, true);
			} } } }
		let prob_scorer = ProbabilisticScorer::new(ProbabilisticScoringDecayParameters::default(), &ng, &LOGGER);
		let prob_params = ProbabilisticScoringFeeParameters::default();
		let mut no_keep: Vec<lightning::routing::router::Path> = vec![];
		for _ in 0..per_graph {
			let payer = rng.below(n as u64) as usize;
			let mut payee = rng.below(n as u64) as usize;
			if payee == payer { payee = (payer + 1) % n; }
			let amt = match rng.below(8) {
				0 => if rng.chance(1, 3) { 1 } else { rng.range(1, amt_hint.max(1)) }, 1 => near(&mut rng, amt_hint).max(1), 2 => rng.range(1, amt_hint.max(1)), 3 => { let c = rng.pick(&g); near(&mut rng, c.limit()).max(1) },
				4 => { let c = rng.pick(&g); near(&mut rng, c.hmin).max(1) }, 5 => amt_hint.saturating_mul(rng.range(2, 6)), 6 => g.iter().map(|c| c.limit()).max().unwrap_or(1).saturating_add(rng.below(3)), _ => amt_hint.max(1),
			}.min(2_000_000_000_000_000);
			let plain = rng.chance(1, 2); // ordinary request: default limits
			let finalcltv = *rng.pick(&[0u32, 18, 40, 144]);
			let mpp = rng.chance(1, 2);
			let mut pp = if mpp { PaymentParameters::for_keysend(w.pks[payee], finalcltv, true) } else { PaymentParameters::from_node_id(w.pks[payee], finalcltv) };
			pp.max_path_count = match rng.below(5) { 0 => 1, 1 => 2, 2 => rng.range(1, 10) as u8, _ => 10 };
			if !plain {
				pp.max_total_cltv_expiry_delta = match rng.below(5) { 0 => finalcltv + rng.below(300) as u32, 1 => 1_000_000, 2 => finalcltv + 1 + rng.below(120) as u32, _ => 1008 };
				pp.max_path_length = match rng.below(5) { 0 => rng.range(1, 4) as u8, 1 => rng.range(1, 19) as u8, _ => 19 };
			}
			pp.max_channel_saturation_power_of_half = match rng.below(4) { 0 => 0, 1 => rng.below(4) as u8, _ => 2 };
			if !plain && rng.chance(1, 4) { for _ in 0..rng.range(1, 3) { pp.previously_failed_channels.push(rng.pick(&g).scid); } }
			let maxfee = if plain { if rng.chance(1, 2) { None } else { Some(amt / 100 + 50_000) } } else { match rng.below(6) { 0 => None, 1 => Some(rng.below(2000)), 2 => Some(amt / 100 + 50_000), 3 => Some(rng.below(amt / 10 + 10)), 4 => Some(0), _ => None } };
			let (payer, payee, amt, mpp, pp, maxfee) = match fan {
				Some((v, np)) if rng.chance(3, 4) => {
					let mut fp = PaymentParameters::for_keysend(w.pks[1], finalcltv, true);
					fp.max_path_count = if rng.chance(4, 5) { np } else { np + 1 };
					fp.max_channel_saturation_power_of_half = 0;
					(0usize, 1usize, if rng.chance(3, 4) { v } else { near(&mut rng, v).max(1) }, true, fp, None)
				},
				_ => (payer, payee, amt, mpp, pp, maxfee),
			};
			let params = RouteParameters { payment_params: pp.clone(), final_value_msat: amt, max_total_routing_fee_msat: maxfee };
			let seed_bytes = [rng.next() as u8; 32];
			let scorer_kind = rng.below(3);
			let q = Req { payer, payee, amt, maxfee, maxcltv: pp.max_total_cltv_expiry_delta as u64, maxpaths: pp.max_path_count as u64, maxlen: pp.max_path_length as u64, finalcltv: finalcltv as u64, excluded: pp.previously_failed_channels.clone(),
				has_first: false, excluded_blinded: vec![], mpp, satpow: pp.max_channel_saturation_power_of_half, scorer: scorer_kind, seed0: seed_bytes[0] };
			let res = guarded(AssertUnwindSafe(|| match scorer_kind {
				0 => find_route(&w.pks[payer], &params, &ng, None, &LOGGER, &prob_scorer, &prob_params, &seed_bytes),
				1 => find_route(&w.pks[payer], &params, &ng, None, &LOGGER, &FixedPenaltyScorer::with_penalty(0), &(), &seed_bytes),
				_ => find_route(&w.pks[payer], &params, &ng, None, &LOGGER, &FixedPenaltyScorer::with_penalty(rng_penalty(seed_bytes[0])), &(), &seed_bytes),
			}));
			let found: Option<Route> = match &res { Ok(Ok(r)) => Some(r.clone()), _ => None };
			record(&mut rec, &mut st, &w, &g, &gs, &q, n, false, false, &[], res, &mut no_keep);
			if let Some(route) = found {
				let input = format!("noroute {} {}", req_str(&q), gs);
				// C16-r5b: the same search without add_random_cltv_offset
				let raw = guarded(AssertUnwindSafe(|| match scorer_kind {
					0 => vr::get_route_raw(&w.pks[payer], &params, &ng, None, &LOGGER, &prob_scorer, &prob_params, &seed_bytes),
					1 => vr::get_route_raw(&w.pks[payer], &params, &ng, None, &LOGGER, &FixedPenaltyScorer::with_penalty(0), &(), &seed_bytes),
					_ => vr::get_route_raw(&w.pks[payer], &params, &ng, None, &LOGGER, &FixedPenaltyScorer::with_penalty(rng_penalty(seed_bytes[0])), &(), &seed_bytes),
				}));
				cltv_offset_check(&mut rec, &route, raw, &q, &input);
				// C16-r5b: build_route_from_hops along the nodes of a single-path route just found: what it returns is a route of the router
				// like any other (scorer 20 on the line; the replay sub-command does not reproduce it)
				if route.paths.len() == 1 && route.paths[0].hops.len() <= 19 {
					let hops: Vec<PublicKey> = route.paths[0].hops.iter().map(|h| h.pubkey).collect();
					let res2 = guarded(AssertUnwindSafe(|| lightning::routing::router::build_route_from_hops(&w.pks[payer], &hops, &params, &ng, &LOGGER, &seed_bytes)));
					match &res2 {
						Ok(Ok(r2)) => { let same = r2.paths.len() == 1 && r2.paths[0].hops.iter().map(|h| h.pubkey).collect::<Vec<_>>() == hops;
							*rec.classes.entry(if same { "buildroute:route-along-the-given-hops" } else { "buildroute:route-over-other-nodes" }.into()).or_insert(0) += 1;
							let mut q2 = q.clone(); q2.scorer = 20;
							record(&mut rec, &mut st, &w, &g, &gs, &q2, n, false, false, &[], res2, &mut no_keep); },
						Ok(Err(_)) => { *rec.classes.entry("buildroute:err".into()).or_insert(0) += 1; },
						Err(_) => { let mut q2 = q.clone(); q2.scorer = 20; record(&mut rec, &mut st, &w, &g, &gs, &q2, n, false, false, &[], res2, &mut no_keep); },
					}
				}
			}
		}
		// ---- extended requests on the same graph: first hops, route hints, blinded tails, fed scorer, in-flight HTLCs
		let mut fed_scorer = ProbabilisticScorer::new(ProbabilisticScoringDecayParameters::default(), &ng, &LOGGER);
		let mut kept: Vec<lightning::routing::router::Path> = vec![];
		let mut kept_payer: Vec<usize> = vec![];
		for _ in 0..per_graph_ext {
			let probe = rng2.chance(1, 25);
			let (mut q, ge, params, first, blinding_points) = ext_request(&mut rng2, &w, &secp, &g, n, amt_hint, &blind_pks, probe);
			n_ext += 1;
			let gse = graph_str(&ge);
			let seed_bytes = [rng2.next() as u8; 32];
			// scorer: 0 fresh ProbabilisticScorer, 1/2 fixed penalties, 3 a ProbabilisticScorer fed with successes / failures of routes found before
			let scorer_kind = rng2.below(5).min(3);
			let use_inflight = (scorer_kind == 0 || scorer_kind == 3) && !kept.is_empty() && rng2.chance(1, 2);
			q.scorer = scorer_kind + if use_inflight { 10 } else { 0 }; q.seed0 = seed_bytes[0];
			let mut inflight = InFlightHtlcs::new();
			if use_inflight { n_inflight += 1; for (p, py) in kept.iter().zip(kept_payer.iter()) { if rng2.chance(2, 3) { inflight.process_path(p, w.pks[*py]); } } }
			if scorer_kind == 3 { n_fed += 1; }
			let refs: Option<Vec<&ChannelDetails>> = first.as_ref().map(|v| v.iter().collect());
			let fh: Option<&[&ChannelDetails]> = refs.as_ref().map(|v| &v[..]);
			let payer = q.payer;
			let res = guarded(AssertUnwindSafe(|| match (scorer_kind, use_inflight) {
				(0, false) => find_route(&w.pks[payer], &params, &ng, fh, &LOGGER, &prob_scorer, &prob_params, &seed_bytes),
				(0, true) => find_route(&w.pks[payer], &params, &ng, fh, &LOGGER, &ScorerAccountingForInFlightHtlcs::new(&prob_scorer, &inflight), &prob_params, &seed_bytes),
				(1, _) => find_route(&w.pks[payer], &params, &ng, fh, &LOGGER, &FixedPenaltyScorer::with_penalty(0), &(), &seed_bytes),
				(2, _) => find_route(&w.pks[payer], &params, &ng, fh, &LOGGER, &FixedPenaltyScorer::with_penalty(rng_penalty(seed_bytes[0])), &(), &seed_bytes),
				(_, false) => find_route(&w.pks[payer], &params, &ng, fh, &LOGGER, &fed_scorer, &prob_params, &seed_bytes),
				(_, true) => find_route(&w.pks[payer], &params, &ng, fh, &LOGGER, &ScorerAccountingForInFlightHtlcs::new(&fed_scorer, &inflight), &prob_params, &seed_bytes),
			}));
			let before = kept.len();
			let nodes: usize = { let mut s: HashSet<usize> = ge.iter().flat_map(|c| [c.src, c.dst]).collect(); s.insert(q.payer); s.insert(q.payee); s.len() };
			if probe { st.n_probe += 1; }
			record(&mut rec, &mut st, &w, &ge, &gse, &q, nodes, true, probe, &blinding_points, res, &mut kept);
			while kept_payer.len() < kept.len() { kept_payer.push(payer); }
			// feed the scorer with random outcomes of the paths just found
			for p in kept[before..].iter() {
				if p.hops.is_empty() { continue; }
				let t = std::time::Duration::from_secs(1_700_000_000 + rng2.below(100_000));
				match rng2.below(4) { 0 => fed_scorer.payment_path_successful(p, t), 1 | 2 => { let h = rng2.pick(&p.hops); fed_scorer.payment_path_failed(p, h.short_channel_id, t) }, _ => { let h = rng2.pick(&p.hops); fed_scorer.probe_failed(p, h.short_channel_id, t) } }
			}
		}
	}
	rec.notes.insert("rule".into(), format!("random NetworkGraphs (4–40 nodes, parallel channels, unknown/known capacities via UTXO stub or partial announcement, zero/extreme fees, disabled directions, missing updates, htlc min/max around the amount), {} plain requests each (amount 1 msat … beyond capacity; max fee / CLTV / path count / path length / saturation / excluded channels varied; ProbabilisticScorer or fixed penalty) + {} EXTENDED requests each ({} in total: first_hops = 1–3 peers x 1–3 ChannelDetails with outbound alias != real scid (some announced channels of the graph), limits/minimums around the amount; 0–3 route hints of 1–3 hops incl. hints naming one of OUR channels by alias or by real scid; or 1–3 blinded tails (raw payinfo or a real BlindedPaymentPath::new, one-hop paths, introduction node = payer / a first-hop peer / any node); excluded channels and blinded-path indices; {} with a ProbabilisticScorer fed with successes/failures of earlier routes, {} with InFlightHtlcs of earlier routes); graph dumped from NetworkGraph::read_only(); every case distinct by op text. routes={} (mpp {} / with a hop at its minimum {} / through a first hop {} (named by the real scid {}) / through a hint hop {} / with a blinded tail {}), router errors={}, panics={}; the completeness oracle of extended requests (a single path through first hops / hints / blinded paths exists and EVERY candidate is ample) was armed on {} requests that returned a route (and is a failure with the request as input when the router returns an error). KNOWN FINDINGS (oracle failures with stable ids, at most 3 reported per id and run, all counted; deterministic minimal inputs: notes probe_1 … probe_9): KF-C16-7 route hints naming a graph channel bypass the graph walk's filters: {} random probe requests carry a route hint (A) whose source is the payer over a channel that is not ours [admissible: a route-hint hop is a way to the payee the property names; these routes must be valid], (B) whose scid is a public channel of the payer missing from first_hops, or (C) whose scid is a public channel whose direction towards the hint's target is disabled; {} routes (probes included) left the payer over such a graph channel although first_hops was supplied (B) or used the disabled direction (C) (the PublicHop candidates made from hints are not filtered by `first_hops.is_none() || source != our_node_id` / `direction().enabled`); the main generator avoids these hint shapes. Example: {}. KF-C16-8 max_path_count: {} requests hit `assertion failed: paths.len() <= payment_params.max_path_count` (a route with too many paths in a release build). Example: {}. KF-C16-9 blind_intros_added stitch: {} requests (max_path_length / used_liquidity assertion, or a returned route violating capacity / length / cltv / fee whose first hop leads to a blinded path's introduction node and continues elsewhere). Example: {}. KF-C16-10 merge rounding: {} routes exceed a limit by 1–2 msat after step (8). Example: {}. KF-C16-11 own-minimum raise not booked: {} routes. Example: {}",
		per_graph, per_graph_ext, n_ext, n_fed, n_inflight, st.n_ok, st.n_multi, st.n_raise, st.n_first, st.n_alias_real, st.n_hint, st.n_blinded, st.n_err, st.n_panic, st.n_all_ample, st.n_probe, st.n_bypass, if st.bypass_example.len() > 2500 { &st.bypass_example[..2500] } else { &st.bypass_example[..] }, st.n_count_rounding, if st.count_rounding_example.len() > 2500 { &st.count_rounding_example[..2500] } else { &st.count_rounding_example[..] }, st.n_stitch, if st.stitch_example.len() > 2500 { &st.stitch_example[..2500] } else { &st.stitch_example[..] }, st.n_merge, if st.merge_example.len() > 2500 { &st.merge_example[..2500] } else { &st.merge_example[..] }, st.n_ownmin, if st.ownmin_example.len() > 2500 { &st.ownmin_example[..2500] } else { &st.ownmin_example[..] }));
	for (i, (k, (n, ex))) in st.debug_asserts.iter().enumerate() {
		rec.notes.insert(format!("debug_assert_{}", i + 1), format!("find_route hit its own debug assertion: {}, {} times (discarded, not a C16 clause); example input: {}", k, n, if ex.len() > 1500 { &ex[..1500] } else { &ex[..] }));
	}
	rec.finish();
}

fn near(rng: &mut Rng, c: u64) -> u64 { let d = rng.below(5); c.saturating_add(d).saturating_sub(2) }

struct PrintLogger;
impl lightning::util::logger::Logger for PrintLogger { fn log(&self, r: lightning::util::logger::Record) { if r.module_path.contains("router") { eprintln!("  [{:?}] {}", r.level, r.args); } } }
static PRINT: PrintLogger = PrintLogger;

/// `c16 c16replay --replay FILE`: re-run the real router on `route` / `noroute` op lines (graph rebuilt
/// from the line through partial announcements + unsigned updates) with the router's log on stderr.
/// One `route` / `noroute` op line turned back into the router's inputs (graph rebuilt through partial announcements + unsigned
/// updates, first hops, hints, blinded paths). A fed scorer / in-flight set is not reproduced.
struct Case<L: lightning::util::logger::Logger + 'static> { q: Req, g: Vec<Chan>, ng: NetworkGraph<&'static L>, params: RouteParameters, details: Vec<ChannelDetails>, blinding_points: Vec<PublicKey> }
fn parse_case<L: lightning::util::logger::Logger + 'static>(line: &str, w: &World, secp: &Secp256k1<bitcoin::secp256k1::All>, logger: &'static L) -> Option<Case<L>> {
	let chain = ChainHash::using_genesis_block(Network::Testnet);
	let ws: Vec<&str> = line.split_whitespace().collect();
	if ws.len() < 19 || (ws[0] != "route" && ws[0] != "noroute") { return None; }
	let num = |s: &str| s.parse::<u64>().unwrap();
	let (payer, payee, amt) = (num(ws[1]) as usize, num(ws[2]) as usize, num(ws[3]));
	let maxfee = if ws[4] == "-" { None } else { Some(num(ws[4])) };
	let (maxcltv, maxpaths, maxlen, finalcltv, has_first, mpp, satpow, scorer, seed0) = (num(ws[5]), num(ws[6]), num(ws[7]), num(ws[8]), ws[9] == "1", ws[10] == "1", num(ws[11]), num(ws[12]), num(ws[13]) as u8);
	let nx = num(ws[15]) as usize;
	let excluded: Vec<u64> = ws[16..16 + nx].iter().map(|s| num(s)).collect();
	let bi = 16 + nx; assert_eq!(ws[bi], "B");
	let nb = num(ws[bi + 1]) as usize;
	let excluded_blinded: Vec<u64> = ws[bi + 2..bi + 2 + nb].iter().map(|s| num(s)).collect();
	let gi = bi + 2 + nb; assert_eq!(ws[gi], "G");
	let nc = num(ws[gi + 1]) as usize;
	let ng: NetworkGraph<&'static L> = NetworkGraph::new(Network::Testnet, logger);
	let mut g = vec![];
	let opt = |s: &str| if s == "-" { None } else { Some(s.parse::<u64>().unwrap()) };
	let blind_pks: Vec<PublicKey> = (0..12usize).map(|i| { let mut sk = [0u8; 32]; sk[31] = (i + 1) as u8; sk[0] = 0x43; PublicKey::from_secret_key(secp, &SecretKey::from_slice(&sk).unwrap()) }).collect();
	let (mut details, mut hints, mut cur_hint, mut bpaths, mut blinding_points): (Vec<ChannelDetails>, Vec<RouteHint>, Vec<RouteHintHop>, Vec<BlindedPaymentPath>, Vec<PublicKey>) = (vec![], vec![], vec![], vec![], vec![]);
	for k in 0..nc {
		let c = &ws[gi + 2 + 12 * k..gi + 14 + 12 * k];
		let (id1, id2) = if c[0] == "f" { match (opt(c[1]), opt(c[2])) { (Some(a), r) => (a, r), (None, Some(r)) => (r, None), _ => panic!("first hop without ids") } } else { (num(c[1]), None) };
		let ch = Chan { kind: Kind::from_tag(c[0]), scid: id1, alt: id2, src: num(c[3]) as usize, dst: num(c[4]) as usize, enabled: c[5] == "1", hmin: num(c[6]), hmax: opt(c[7]).unwrap_or(0), unbounded: c[7] == "-",
			cap: opt(c[8]), base: num(c[9]), prop: num(c[10]), cltv: num(c[11]) };
		// first hop: the `cap` token is counterparty.outbound_htlc_minimum_msat, a pure function of (limit, minimum) (see decoy_cp_min)
		let ch = if ch.kind == Kind::First { Chan { cap: decoy_cp_min(ch.hmax, ch.hmin), ..ch } } else { ch };
		match ch.kind {
			Kind::Pub => {
				let (one, two) = if w.ids[ch.src] < w.ids[ch.dst] { (ch.src, ch.dst) } else { (ch.dst, ch.src) };
				let _ = ng.add_channel_from_partial_announcement(ch.scid, ch.cap.map(|m| m / 1000), 0, ChannelFeatures::empty(), w.ids[one], w.ids[two]);
				let dir = if ch.src == one { 0u8 } else { 1u8 };
				let upd = UnsignedChannelUpdate { chain_hash: chain, short_channel_id: ch.scid, timestamp: 2, message_flags: 1, channel_flags: dir | ((!ch.enabled as u8) << 1), cltv_expiry_delta: ch.cltv as u16,
					htlc_minimum_msat: ch.hmin, htlc_maximum_msat: ch.hmax, fee_base_msat: ch.base as u32, fee_proportional_millionths: ch.prop as u32, excess_data: vec![] };
				ng.update_channel_unsigned(&upd).unwrap();
			},
			// alt present: scid is the alias and alt the real scid; otherwise only a real scid (below 2_000_000) or only an alias
			Kind::First => details.push(match ch.alt { Some(real) => channel_details(w.pks[ch.dst], Some(real), Some(ch.scid), ch.hmax, ch.hmin, real < 1_000_000), None => if ch.scid >= 2_000_000 { channel_details(w.pks[ch.dst], None, Some(ch.scid), ch.hmax, ch.hmin, false) } else { channel_details(w.pks[ch.dst], Some(ch.scid), None, ch.hmax, ch.hmin, ch.scid < 1_000_000) } }),
			Kind::Hint => {
				cur_hint.push(RouteHintHop { src_node_id: w.pks[ch.src], short_channel_id: ch.scid, fees: RoutingFees { base_msat: ch.base as u32, proportional_millionths: ch.prop as u32 }, cltv_expiry_delta: ch.cltv as u16, htlc_minimum_msat: Some(ch.hmin), htlc_maximum_msat: if ch.unbounded { None } else { Some(ch.hmax) } });
				if ch.dst == payee { hints.push(RouteHint(std::mem::take(&mut cur_hint))); }
			},
			Kind::Blinded | Kind::OneHop => {
				let i = bpaths.len();
				let hops: Vec<BlindedHop> = (0..if ch.kind == Kind::OneHop { 1 } else { 2 }).map(|j| BlindedHop { blinded_node_id: blind_pks[(i + j + 1) % blind_pks.len()], encrypted_payload: vec![] }).collect();
				bpaths.push(BlindedPaymentPath::from_blinded_path_and_payinfo(w.pks[ch.src], blind_pks[i], hops, BlindedPayInfo { fee_base_msat: ch.base as u32, fee_proportional_millionths: ch.prop as u32, cltv_expiry_delta: ch.cltv as u16, htlc_minimum_msat: ch.hmin, htlc_maximum_msat: ch.hmax, features: BlindedHopFeatures::empty() }));
				blinding_points.push(blind_pks[i]);
			},
		}
		g.push(ch);
	}
	let mut pp = if !bpaths.is_empty() { let b = PaymentParameters::blinded(bpaths); if mpp { let mut f = Bolt12InvoiceFeatures::empty(); f.set_basic_mpp_optional(); b.with_bolt12_features(f).unwrap() } else { b } }
		else { let c = if mpp { PaymentParameters::for_keysend(w.pks[payee], finalcltv as u32, true) } else { PaymentParameters::from_node_id(w.pks[payee], finalcltv as u32) }; if hints.is_empty() { c } else { c.with_route_hints(hints).unwrap() } };
	pp.max_path_count = maxpaths as u8; pp.max_total_cltv_expiry_delta = maxcltv as u32; pp.max_path_length = maxlen as u8; pp.max_channel_saturation_power_of_half = satpow as u8; pp.previously_failed_channels = excluded.clone(); pp.previously_failed_blinded_path_idxs = excluded_blinded.clone();
	let params = RouteParameters { payment_params: pp, final_value_msat: amt, max_total_routing_fee_msat: maxfee };
	let q = Req { payer, payee, amt, maxfee, maxcltv, maxpaths, maxlen, finalcltv, excluded, has_first, excluded_blinded, mpp, satpow: satpow as u8, scorer, seed0 };
	Some(Case { q, g, ng, params, details, blinding_points })
}
/// run the real router on a parsed case (scorer kinds 1/2 fixed penalties, otherwise a fresh ProbabilisticScorer)
fn run_case<L: lightning::util::logger::Logger + 'static>(c: &Case<L>, w: &World, logger: &'static L) -> Result<Result<Route, &'static str>, String> {
	let seed_bytes = [c.q.seed0; 32];
	let refs: Vec<&ChannelDetails> = c.details.iter().collect();
	let fh: Option<&[&ChannelDetails]> = if c.q.has_first { Some(&refs[..]) } else { None };
	let (payer, params, ng) = (c.q.payer, &c.params, &c.ng);
	guarded(AssertUnwindSafe(|| match c.q.scorer % 10 {
		1 => find_route(&w.pks[payer], params, ng, fh, logger, &FixedPenaltyScorer::with_penalty(0), &(), &seed_bytes),
		2 => find_route(&w.pks[payer], params, ng, fh, logger, &FixedPenaltyScorer::with_penalty(rng_penalty(c.q.seed0)), &(), &seed_bytes),
		_ => find_route(&w.pks[payer], params, ng, fh, logger, &ProbabilisticScorer::new(ProbabilisticScoringDecayParameters::default(), ng, logger), &ProbabilisticScoringFeeParameters::default(), &seed_bytes),
	}))
}
fn world(secp: &Secp256k1<bitcoin::secp256k1::All>, nmax: usize) -> World {
	let mut pks = vec![];
	for i in 0..nmax { let mut sk = [0u8; 32]; sk[31] = (i + 1) as u8; sk[0] = 0x42; pks.push(PublicKey::from_secret_key(secp, &SecretKey::from_slice(&sk).unwrap())); }
	let ids: Vec<NodeId> = pks.iter().map(|p| NodeId::from_pubkey(p)).collect();
	let index: HashMap<NodeId, usize> = ids.iter().enumerate().map(|(i, id)| (*id, i)).collect();
	World { pks, ids, index }
}

/// `c16 c16replay --replay FILE`: re-run the real router on `route` / `noroute` op lines (graph rebuilt
/// from the line through partial announcements + unsigned updates) with the router's log on stderr.
fn replay_model(args: &Args) {
	let file = args.replay.as_ref().expect("--replay FILE");
	let secp = Secp256k1::new();
	let w = world(&secp, 40);
	for line in std::fs::read_to_string(file).unwrap().lines() {
		// accept a bare op line or a whole oracle message: the op starts at a `route ` / `noroute ` that is followed by a number
		let start = line.match_indices("route ").map(|(i, _)| i).find(|i| line[i + 6..].split(' ').next().map_or(false, |t| !t.is_empty() && t.bytes().all(|b| b.is_ascii_digit())));
		let line = match start { Some(i) => if i >= 2 && &line[i - 2..i] == "no" { &line[i - 2..] } else { &line[i..] }, None => continue };
		let c = match parse_case(line, &w, &secp, &PRINT) { Some(c) => c, None => continue };
		let (g, q) = (&c.g, &c.q);
		eprintln!("=== replay {} ... (a fed scorer / in-flight set is not reproduced: fresh scorer)", req_str(q));
		match run_case(&c, &w, &PRINT) {
			Err(p) => println!("panic {}", p),
			Ok(Err(e)) => println!("err {} (reference: {}, ample: {})", e, if reference(g, q, &|c: &Chan| usable(g, q, c)) { "found" } else { "none" }, ample_path_exists(g, q, 1 + g.iter().map(|c| c.src.max(c.dst)).max().unwrap_or(0), if q.maxpaths > 1 && q.mpp { 2 } else { 1 })),
			Ok(Ok(route)) => { let r = to_hops(&route, &w, &c.blinding_points); let v = recheck(g, q, &r); println!("{} -> {:?}{}", route_str(&r), v, match &v { Err((cl, d)) => kf_route_tag(g, q, &r, cl, d).map_or(" [no known-finding signature]".to_string(), |t| format!(" [{}]", &t.0[..t.0.find(' ').unwrap_or(t.0.len())])), Ok(()) => String::new() }); },
		}
	}
}

fn rng_penalty(b: u8) -> u64 { match b % 4 { 0 => 1, 1 => 500, 2 => 100_000, _ => 10_000_000 } }

fn main() {
	let args = &parse_args("c16fees");
	std::panic::set_hook(Box::new(|info| { if let Some(l) = info.location() { *LAST_PANIC_AT.lock().unwrap() = format!("{}:{}", l.file().rsplit('/').next().unwrap_or(""), l.line()); } }));
	match args.model.as_str() {
		"c16fees" => fees_model(args),
		"c16router" => router_model(args),
		"c16replay" => replay_model(args),
		m => { eprintln!("unknown model {}", m); std::process::exit(2); },
	}
}
