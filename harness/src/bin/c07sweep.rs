//! C07 (c07sweep) — the REAL `lightning::util::sweep::OutputSweeperSync` (= OutputSweeper) driven through its Listen and
//! Confirm interfaces by a small miner with reorganisations aimed at and around the confirmation heights of its sweeps.
//! ops (answered by Driver/C07Sweep.lean with Model/Sweeper.lean; the answer is the whole canonical sweeper state):
//!   new <best> | track <id> <delay|-> | sweep [tag] | conf <h> <n>:<id>,<id>… | best <h> | connect <h> <tx>… | disc <fork> | unconf <n>
//! Implementation oracles (no model): a transaction handed to the broadcaster never spends an outpoint whose spend is
//! confirmed on the best chain; after every completed chain update an output is PendingThresholdConfirmations at height h
//! exactly when the best chain holds a spend of it at height h; every tracked output is eventually swept (confirmed) when the
//! miner includes everything; pruned exactly at confirmation height + PRUNE_DELAY_BLOCKS - 1.
use ldk_verif_harness::common::*;
use bitcoin::absolute::LockTime;
use bitcoin::block::Header;
use bitcoin::hashes::Hash;
use bitcoin::secp256k1::{All, Secp256k1};
use bitcoin::transaction::Version;
use bitcoin::{Amount, BlockHash, OutPoint as BOutPoint, ScriptBuf, Transaction, TxIn, TxOut, Txid};
use lightning::chain::chaininterface::{BroadcasterInterface, ConfirmationTarget, FeeEstimator, TransactionType};
use lightning::chain::transaction::OutPoint;
use lightning::chain::{BlockLocator, Confirm, Filter, Listen, WatchedOutput};
use lightning::sign::{ChangeDestinationSourceSync, OutputSpender, SpendableOutputDescriptor};
use lightning::util::sweep::{OutputSpendStatus, OutputSweeperSync, PRUNE_DELAY_BLOCKS};
use lightning::util::test_utils::TestStore;
use std::collections::{BTreeMap, HashMap};
use std::panic::AssertUnwindSafe;
use std::sync::atomic::{AtomicU64, Ordering};
use std::sync::Mutex;

struct Bcast(Mutex<Vec<Transaction>>);
impl BroadcasterInterface for Bcast {
	fn broadcast_transactions(&self, txs: &[(&Transaction, TransactionType)]) { for (tx, _) in txs { self.0.lock().unwrap().push((*tx).clone()); } }
}
struct Fee;
impl FeeEstimator for Fee { fn get_est_sat_per_1000_weight(&self, _: ConfirmationTarget) -> u32 { 253 } }
struct NoFilter;
impl Filter for NoFilter {
	fn register_tx(&self, _: &Txid, _: &bitcoin::Script) {}
	fn register_output(&self, _: WatchedOutput) {}
}
/// a different script on every call: every sweep transaction has its own txid
struct Change(AtomicU64);
impl ChangeDestinationSourceSync for Change {
	fn get_change_destination_script(&self) -> Result<ScriptBuf, ()> { let n = self.0.fetch_add(1, Ordering::Relaxed); Ok(ScriptBuf::new_op_return(&n.to_be_bytes())) }
}
/// spends exactly the descriptors it is handed, to the change script, less a flat fee
struct Spender;
impl OutputSpender for Spender {
	fn spend_spendable_outputs(&self, descriptors: &[&SpendableOutputDescriptor], _: Vec<TxOut>, change: ScriptBuf, _: u32, locktime: Option<LockTime>, _: &Secp256k1<All>) -> Result<Transaction, ()> {
		let mut value = Amount::ZERO;
		let mut input = Vec::new();
		for d in descriptors {
			if let SpendableOutputDescriptor::StaticOutput { output, .. } = d { value += output.value; }
			input.push(TxIn { previous_output: d.spendable_outpoint().into_bitcoin_outpoint(), ..Default::default() });
		}
		Ok(Transaction { version: Version::TWO, lock_time: locktime.unwrap_or(LockTime::ZERO), input, output: vec![TxOut { value: value - Amount::from_sat(500), script_pubkey: change }] })
	}
}

type Sw<'a> = OutputSweeperSync<&'a Bcast, &'a Change, Fee, NoFilter, &'a TestStore, NullLogger, Spender>;

fn out_txid(id: u32) -> Txid { let mut b = [0x5au8; 32]; b[..4].copy_from_slice(&id.to_be_bytes()); Txid::from_byte_array(b) }
fn descriptor(id: u32) -> SpendableOutputDescriptor {
	SpendableOutputDescriptor::StaticOutput { outpoint: OutPoint { txid: out_txid(id), index: 0 }, output: TxOut { value: Amount::from_sat(100_000 + id as u64), script_pubkey: ScriptBuf::new_op_return(&id.to_be_bytes()) }, channel_keys_id: None }
}
fn header(prev: BlockHash, nonce: u32) -> Header {
	Header { version: bitcoin::block::Version::NO_SOFT_FORK_SIGNALLING, prev_blockhash: prev, merkle_root: bitcoin::hash_types::TxMerkleNode::all_zeros(), time: nonce, bits: bitcoin::pow::CompactTarget::from_consensus(42), nonce }
}

struct Blk { header: Header, height: u32, txs: Vec<Transaction> }

struct Scen<'a> {
	sw: Sw<'a>,
	bc: &'a Bcast,
	listen: bool,
	base_hash: BlockHash,
	base_height: u32,
	chain: Vec<Blk>,                   // blocks above the base, oldest first
	txno: HashMap<Txid, u32>,          // sweep transactions in broadcast order (1, 2, …) = the model's numbering
	txs: Vec<Transaction>,             // every sweep transaction broadcast so far
	ids: HashMap<BOutPoint, u32>,
	next_id: u32,
	nonce: u32,
	hist: Vec<String>,
	tag: String,
}

impl<'a> Scen<'a> {
	fn best(&self) -> u32 { self.chain.last().map(|b| b.height).unwrap_or(self.base_height) }
	fn tip_hash(&self) -> BlockHash { self.chain.last().map(|b| b.header.block_hash()).unwrap_or(self.base_hash) }
	/// outpoint -> (number of the spending transaction, height) on the best chain
	fn chain_spends(&self) -> HashMap<BOutPoint, (u32, u32)> {
		let mut m = HashMap::new();
		for b in &self.chain { for tx in &b.txs { for i in &tx.input { m.insert(i.previous_output, (self.txno[&tx.compute_txid()], b.height)); } } }
		m
	}
	fn state_line(&self) -> String {
		let mut s = format!("{} |", self.sw.current_best_block().height);
		for o in self.sw.tracked_spendable_outputs() {
			let id = self.ids.get(&o.descriptor.spendable_outpoint().into_bitcoin_outpoint()).copied().unwrap_or(0);
			let n = |tx: &Transaction| self.txno.get(&tx.compute_txid()).copied().unwrap_or(0);
			s.push_str(&match &o.status {
				OutputSpendStatus::PendingInitialBroadcast { delayed_until_height } => format!(" {}:I:{}", id, delayed_until_height.map(|d| d.to_string()).unwrap_or("-".into())),
				OutputSpendStatus::PendingFirstConfirmation { latest_broadcast_height, latest_spending_tx, .. } => format!(" {}:F:{}:{}", id, latest_broadcast_height, n(latest_spending_tx)),
				OutputSpendStatus::PendingThresholdConfirmations { latest_broadcast_height, latest_spending_tx, confirmation_height, .. } => format!(" {}:T:{}:{}:{}", id, latest_broadcast_height, n(latest_spending_tx), confirmation_height),
			});
		}
		s
	}
	fn op(&mut self, rec: &mut Rec, op: String, answer_prefix: &str, class: &str) {
		let line = format!("{}{}", answer_prefix, self.state_line());
		self.hist.push(format!("{} => {}", op, line));
		rec.case(&op, &line, class, true);
	}
	fn fail(&self, rec: &mut Rec, what: String) {
		rec.oracle_fail(format!("{} [{} {}; ops: {}]", what, if self.listen { "Listen" } else { "Confirm" }, self.tag, { let k = self.hist.len().saturating_sub(60); format!("{}{}", if k > 0 { format!("(… {} earlier ops) ", k) } else { String::new() }, self.hist[k..].join(" ; ")) }));
	}
	/// the sweeper's view must agree with the best chain (called when a chain update is complete)
	fn check_view(&self, rec: &mut Rec, after: &str) {
		let spends = self.chain_spends();
		for o in self.sw.tracked_spendable_outputs() {
			let op = o.descriptor.spendable_outpoint().into_bitcoin_outpoint();
			let id = self.ids[&op];
			let truth = spends.get(&op).copied();
			match (&o.status, truth) {
				(OutputSpendStatus::PendingThresholdConfirmations { confirmation_height, .. }, Some((_, h))) if *confirmation_height == h => {},
				(OutputSpendStatus::PendingThresholdConfirmations { confirmation_height, .. }, t) =>
					self.fail(rec, format!("after {}: the sweeper holds output {} as spent and confirmed at height {}, but on the best chain (tip {}) its spend is {:?}", after, id, confirmation_height, self.best(), t.map(|(n, h)| format!("tx {} at height {}", n, h)))),
				(_, Some((n, h))) =>
					self.fail(rec, format!("after {}: output {} is spent by sweep tx {} CONFIRMED at height {} of the best chain (tip {}), but the sweeper holds it as not confirmed ({}) and will spend it again", after, id, n, h, self.best(), self.state_line())),
				_ => {},
			}
		}
	}
	fn track(&mut self, rec: &mut Rec, delay: Option<u32>) {
		let id = self.next_id; self.next_id += 1;
		let d = descriptor(id);
		self.ids.insert(d.spendable_outpoint().into_bitcoin_outpoint(), id);
		self.sw.track_spendable_outputs(vec![d], None, None, false, delay).unwrap();
		self.op(rec, format!("track {} {}", id, delay.map(|d| d.to_string()).unwrap_or("-".into())), "", if delay.is_some() { "track-delayed" } else { "track" });
	}
	fn sweep(&mut self, rec: &mut Rec) {
		self.sw.regenerate_and_broadcast_spend_if_necessary().unwrap();
		let txn: Vec<Transaction> = self.bc.0.lock().unwrap().drain(..).collect();
		let mut prefix = "none | ".to_string();
		let mut class = "sweep-none";
		let spends = self.chain_spends();
		for tx in txn {
			let n = self.txs.len() as u32 + 1;
			self.txno.insert(tx.compute_txid(), n);
			let mut ins: Vec<u32> = tx.input.iter().map(|i| self.ids.get(&i.previous_output).copied().unwrap_or(0)).collect();
			ins.sort();
			prefix = format!("tx {} {} | ", n, ins.iter().map(|i| i.to_string()).collect::<Vec<_>>().join(" "));
			class = if ins.len() > 1 { "sweep-batch" } else { "sweep-one" };
			for i in &tx.input {
				if let Some((m, h)) = spends.get(&i.previous_output) {
					self.hist.push(format!("sweep{} => {}", self.tag, prefix));
					self.fail(rec, format!("sweep tx {} (inputs {:?}, broadcast at height {}) double-spends output {}, which sweep tx {} already spent in block {} of the best chain (tip {}): consensus-invalid, and the other inputs are never recovered", n, ins, self.best(), self.ids[&i.previous_output], m, h, self.best()));
					self.hist.pop();
				}
			}
			self.txs.push(tx);
		}
		let tag = self.tag.clone();
		self.op(rec, format!("sweep {}", tag), &prefix, class);
	}
	fn tx_token(&self, tx: &Transaction) -> String {
		format!("{}:{}", self.txno[&tx.compute_txid()], tx.input.iter().map(|i| self.ids[&i.previous_output].to_string()).collect::<Vec<_>>().join(","))
	}
	/// sweeps that the miner may put into the next block: not on the chain, final, every input unspent, no conflict among them
	fn minable(&self, rng: &mut Rng, pct: u64) -> Vec<Transaction> {
		let spends = self.chain_spends();
		let h = self.best() + 1;
		let mut used: Vec<BOutPoint> = vec![];
		let mut res = vec![];
		let mut cands: Vec<&Transaction> = self.txs.iter().collect();
		if rng.chance(1, 2) { cands.reverse(); }
		for tx in cands {
			if tx.lock_time.to_consensus_u32() >= h { continue; }
			if tx.input.iter().any(|i| spends.contains_key(&i.previous_output) || used.contains(&i.previous_output)) { continue; }
			if !rng.chance(pct, 100) { continue; }
			used.extend(tx.input.iter().map(|i| i.previous_output));
			res.push(tx.clone());
		}
		res
	}
	fn connect(&mut self, rec: &mut Rng, r: &mut Rec, pct: u64) {
		let txs = self.minable(rec, pct);
		let h = self.best() + 1;
		self.nonce += 1;
		let hd = header(self.tip_hash(), self.nonce);
		let txdata: Vec<(usize, &Transaction)> = txs.iter().enumerate().collect();
		let toks = txs.iter().map(|t| format!(" {}", self.tx_token(t))).collect::<String>();
		let class = if txs.is_empty() { "block-empty" } else { "block-with-sweeps" };
		if self.listen {
			self.sw.filtered_block_connected(&hd, &txdata, h);
			self.chain.push(Blk { header: hd, height: h, txs: txs.clone() });
			self.op(r, format!("connect {}{}", h, toks), "", class);
		} else {
			let best_first = rec.chance(1, 3);
			self.chain.push(Blk { header: hd, height: h, txs: txs.clone() });
			if best_first { self.sw.best_block_updated(&hd, h); self.op(r, format!("best {}", h), "", "confirm-best"); }
			if !txs.is_empty() { self.sw.transactions_confirmed(&hd, &txdata, h); self.op(r, format!("conf {}{}", h, toks), "", class); }
			if !best_first { self.sw.best_block_updated(&hd, h); self.op(r, format!("best {}", h), "", "confirm-best"); }
		}
		self.check_view(r, &format!("block {} connected", h));
	}
	/// reorganisation: the block at height `fork` is the last one that stays
	fn reorg(&mut self, r: &mut Rec, fork: u32) {
		debug_assert!(fork < self.best() && fork >= self.base_height);
		let confs: Vec<u32> = self.sw.tracked_spendable_outputs().iter().filter_map(|o| if let OutputSpendStatus::PendingThresholdConfirmations { confirmation_height, .. } = o.status { Some(confirmation_height) } else { None }).collect();
		let class = if confs.iter().any(|c| *c == fork) { "reorg-fork-at-confirmation-height" } else if confs.iter().any(|c| *c == fork + 1) { "reorg-removes-confirmation-block" } else if confs.iter().any(|c| *c > fork) { "reorg-below-confirmation" } else if confs.is_empty() { "reorg-nothing-confirmed" } else { "reorg-above-confirmation" };
		while self.best() > fork { self.chain.pop(); }
		let (fh, fhash) = (self.best(), self.tip_hash());
		if self.listen {
			self.sw.blocks_disconnected(BlockLocator::new(fhash, fh));
			self.op(r, format!("disc {}", fork), "", class);
		} else {
			let on_chain: Vec<BlockHash> = self.chain.iter().map(|b| b.header.block_hash()).collect();
			let mut gone: Vec<u32> = self.sw.get_relevant_txids().into_iter().filter(|(_, _, bh)| bh.map(|b| !on_chain.contains(&b)).unwrap_or(true)).map(|(t, _, _)| self.txno[&t]).collect();
			gone.sort(); gone.dedup();
			for n in gone {
				let txid = self.txs[n as usize - 1].compute_txid();
				self.sw.transaction_unconfirmed(&txid);
				self.op(r, format!("unconf {}", n), "", class);
			}
			let hd = self.chain.last().map(|b| b.header).unwrap_or_else(|| header(BlockHash::all_zeros(), 0));
			if self.chain.is_empty() {
				// the base block has no header of ours: name the tip through a fresh header whose hash becomes the new base
				self.base_hash = hd.block_hash();
			}
			self.sw.best_block_updated(&hd, fh);
			self.op(r, format!("best {}", fh), "", "confirm-best-after-reorg");
		}
		self.check_view(r, &format!("reorg to fork point {}", fork));
	}
}

fn scenario(rec: &mut Rec, seed: u64, idx: u64, directed: Option<u32>) {
	let mut rng = Rng::new(seed);
	let bc = Bcast(Mutex::new(vec![]));
	let change = Change(AtomicU64::new(seed << 20));
	let store = TestStore::new(false);
	let listen = directed.is_some() || rng.chance(1, 2);
	let base_height = rng.range(1, 500) as u32;
	let base_hash = BlockHash::from_byte_array(rng.bytes32());
	let sw: Sw = OutputSweeperSync::new(BlockLocator::new(base_hash, base_height), &bc, Fee, None, Spender, &change, &store, NullLogger);
	let mut s = Scen { sw, bc: &bc, listen, base_hash, base_height, chain: vec![], txno: HashMap::new(), txs: vec![], ids: HashMap::new(), next_id: 1, nonce: (idx as u32) << 12, hist: vec![], tag: format!("s{}", seed) };
	rec.directive(&format!("new {}", base_height));
	if let Some(k) = directed {
		// the boundary family: sweep confirms at H, blocks up to H+2, reorg to H-1+k (k = 0: removes the block, 1: fork AT H, 2: above), then a second output matures
		s.track(rec, None); s.sweep(rec);
		s.connect(&mut rng, rec, 100); s.connect(&mut rng, rec, 100); s.connect(&mut rng, rec, 100);
		let f = s.base_height + k;
		s.reorg(rec, f);
		s.connect(&mut rng, rec, 0);
		s.track(rec, None); s.sweep(rec);
	} else {
		let n = rng.range(10, 45);
		for _ in 0..n {
			match rng.below(100) {
				0..=17 => { let d = if rng.chance(3, 10) { Some(s.best() + rng.below(4) as u32) } else { None }; s.track(rec, d) },
				18..=42 => s.sweep(rec),
				43..=79 => { let pct = *rng.pick(&[0u64, 50, 100, 100]); s.connect(&mut rng, rec, pct) },
				_ => {
					if s.best() == s.base_height { continue; }
					let lo = s.base_height.max(s.best().saturating_sub(4));
					let confs: Vec<u32> = s.sw.tracked_spendable_outputs().iter().filter_map(|o| if let OutputSpendStatus::PendingThresholdConfirmations { confirmation_height, .. } = o.status { Some(confirmation_height) } else { None }).collect();
					let mut cands: Vec<u32> = vec![];
					for c in confs { for f in [c.saturating_sub(1), c, c + 1] { if f >= s.base_height && f < s.best() { cands.push(f); } } }
					let f = if !cands.is_empty() && rng.chance(2, 3) { *rng.pick(&cands) } else { rng.range(lo as u64, s.best() as u64 - 1) as u32 };
					s.reorg(rec, f);
					if rng.chance(1, 2) { s.sweep(rec); }
				},
			}
		}
	}
	// drain: the miner includes everything; every tracked output must end up confirmed (a Confirm-style reorg may have LOWERED the best
	// height below an output's latest_broadcast_height / delay: the re-broadcast waits until the height has passed it, hence the generous bound)
	let mut rounds = 0;
	while s.sw.tracked_spendable_outputs().iter().any(|o| !matches!(o.status, OutputSpendStatus::PendingThresholdConfirmations { .. })) && rounds < 80 {
		s.sweep(rec); s.connect(&mut rng, rec, 100); rounds += 1;
	}
	for o in s.sw.tracked_spendable_outputs() {
		if !matches!(o.status, OutputSpendStatus::PendingThresholdConfirmations { .. }) {
			let id = s.ids[&o.descriptor.spendable_outpoint().into_bitcoin_outpoint()];
			s.fail(rec, format!("output {} is never swept: still {} after {} rounds of sweep + a block that includes every valid sweep", id, s.state_line(), rounds));
		}
	}
	// pruning boundary (Confirm::best_block_updated may skip heights): confirmation height + PRUNE_DELAY_BLOCKS - 1
	let mut confs: BTreeMap<u32, u32> = BTreeMap::new();
	for o in s.sw.tracked_spendable_outputs() { if let OutputSpendStatus::PendingThresholdConfirmations { confirmation_height, .. } = o.status { *confs.entry(confirmation_height).or_insert(0) += 1; } }
	if idx % 3 == 0 {
		for (c, _) in confs.iter() {
			for h in [c + PRUNE_DELAY_BLOCKS - 2, c + PRUNE_DELAY_BLOCKS - 1] {
				if h <= s.sw.current_best_block().height { continue; }
				s.nonce += 1;
				let hd = header(BlockHash::all_zeros(), s.nonce);
				s.sw.best_block_updated(&hd, h);
				s.op(rec, format!("best {}", h), "", "prune-boundary");
				for o in s.sw.tracked_spendable_outputs() {
					if let OutputSpendStatus::PendingThresholdConfirmations { confirmation_height, .. } = o.status {
						if h >= confirmation_height + PRUNE_DELAY_BLOCKS - 1 { s.fail(rec, format!("output confirmed at {} still tracked at height {}", confirmation_height, h)); }
					}
				}
				let left = s.sw.tracked_spendable_outputs().iter().filter(|o| matches!(o.status, OutputSpendStatus::PendingThresholdConfirmations { confirmation_height, .. } if confirmation_height == *c)).count();
				if h == c + PRUNE_DELAY_BLOCKS - 2 && left == 0 { s.fail(rec, format!("outputs confirmed at {} pruned at height {}, one block before confirmation height + PRUNE_DELAY_BLOCKS - 1", c, h)); }
			}
		}
	}
}

fn main() {
	let args = &parse_args("c07sweep");
	let mut rec = Rec::new(&args.out, "c07sweep");
	let mut rng = Rng::new(args.seed ^ 0xC07_5EE9);
	let n = if args.thorough { 6000 } else { 500 } * args.scale;
	let replay: Option<u64> = std::env::var("C07_SWEEP_SEED").ok().and_then(|s| s.parse().ok());
	for idx in 0..n {
		let seed = replay.unwrap_or_else(|| rng.next() >> 8);
		let directed = if idx < 9 { Some((idx % 3) as u32) } else { None };
		let before = rec.oracle_failures.len();
		if let Err(p) = guarded(AssertUnwindSafe(|| scenario(&mut rec, seed, idx, directed))) {
			rec.oracle_fail(format!("panic in the sweeper scenario seed {} (C07_SWEEP_SEED={}): {}", seed, seed, p));
		}
		if rec.oracle_failures.len() > before { *rec.classes.entry("scenario-with-oracle-failure".into()).or_insert(0) += 1; }
		if replay.is_some() { break; }
	}
	rec.notes.insert("rule".into(), "every op of every scenario is a compared case; distinct = distinct op lines".into());
	rec.finish();
}
