//! Two real nodes, one channel, random schedules: every update_* / commitment_signed / revoke_and_ack
//! delivered separately, monitor updates completing synchronously or asynchronously in any order.
//! The observed trace is turned into op lines for two Lean models:
//!   chan    — the two-party commitment protocol monitor (C01 agreement/contents/balances, C05 counters)
//!   mongate — the monitor-update gating monitor (C09)
use ldk_verif_harness::common::*;
use ldk_verif_harness::sim::*;
use std::collections::BTreeMap;

/// C01: what the REAL send-side admission check evaluates right now, per node (hook `channel_send_check_inputs`) and the limits
/// `list_channels` reports; recorded in the trace as an event so that the op lines `stats` / `lim` compare them with the channel
/// model's `Node.statsValueToSelf` / `Node.statsHtlcs` / `Node.availableBalances` at exactly this point of the history.
fn sample_stats(net: &mut Net, c: usize) {
	let cid = net.chans[c].2;
	for i in 0..2 {
		let peer = net.ids[1 - i];
		let r = lightning::ln::verif_hooks::channel_send_check_inputs(net.nodes[i].node, &peer, &cid);
		let d = net.nodes[i].node.list_channels().into_iter().find(|d| d.channel_id == cid);
		if let (Some((v, mut hs, hold, cons, lim, maxd, _fr)), Some(d)) = (r, d) {
			hs.sort();
			let h: Vec<String> = hs.iter().map(|(o, a)| format!("{}{}", if *o { "o" } else { "i" }, a)).collect();
			let text = format!("STATS {} {} {} | {} {} {} {} | {} {}", v, if h.is_empty() { "-".to_string() } else { h.join(",") }, hold,
				d.channel_value_satoshis, lim.map(|x| x.to_string()).unwrap_or("-".into()), maxd, cons.iter().map(|x| x.to_string()).collect::<Vec<_>>().join(" "),
				d.next_outbound_htlc_limit_msat, d.next_outbound_htlc_minimum_msat);
			net.trace.push(Obs::Event { node: i, text });
		}
	}
}

fn scenario(rng: &mut Rng, steps: usize, async_persist: bool, with_disc: bool, with_fee: bool, tiny_push: bool, with_restart: bool) -> (Net, Vec<String>) {
	let mut viol: Vec<String> = vec![];
	let mut at_limit: Vec<(usize, &'static str, u64, bool)> = vec![]; // (payment, which bound, amount, raced: the peer had / later originated HTLCs the sender could not know when it read the limit)
	let mut user_failed: Vec<usize> = vec![];
	let cfg = if rng.chance(1, 2) { Some(lightning::ln::functional_test_utils::test_legacy_channel_config()) } else { None };
	// asymmetric reserves: what each node REQUIRES of its peer (1 % default); in fee scenarios the fundee demands a large reserve
	// of the funder, so that a fee increase the funder cannot afford above THAT reserve is a reachable state
	let (cfg0, cfg1) = {
		let base = cfg.clone().unwrap_or_else(lightning::ln::functional_test_utils::test_default_channel_config);
		let (mut c0, mut c1) = (base.clone(), base);
		let asym = with_fee || rng.chance(1, 2);
		if asym {
			c0.channel_handshake_config.their_channel_reserve_proportional_millionths = *rng.pick(&[10_000u32, 10_000, 20_000, 50_000]);
			c1.channel_handshake_config.their_channel_reserve_proportional_millionths = if with_fee { *rng.pick(&[100_000u32, 150_000, 200_000]) } else { *rng.pick(&[10_000u32, 30_000, 100_000]) };
		}
		if cfg.is_none() && !asym { (None, None) } else { (Some(c0), Some(c1)) }
	};
	let mut net = Net::new(2, vec![cfg0, cfg1]);
	let value = *rng.pick(&[100_000u64, 1_000_000, 5_000_000]);
	// `tiny_push` (short close scenarios of C01): the fundee starts with 0..700 sat, around the closing dust limit
	let push = if tiny_push { rng.below(700_000) } else { rng.below(value * 1000 / 2) };
	let c = net.open(0, 1, value, push);
	net.sample_balances(c); sample_stats(&mut net, c);
	if async_persist { for i in 0..2 { if rng.chance(1, 2) { net.set_mode(i, true); } } }
	for _ in 0..steps {
		let linked = net.connected.contains(&(0, 1));
		// sends are only meaningful once both sides consider the channel usable again (reestablish exchanged)
		let connected = linked && (0..2).all(|i| net.nodes[i].node.list_channels().get(0).map(|c| c.is_usable).unwrap_or(false));
		// targeted: reconnect while a monitor update is still in flight (retransmission must stay gated)
		if with_disc && linked && rng.chance(1, 5) && (0..2).any(|i| !net.pending_updates(i, c).is_empty()) {
			net.disconnect(0, 1); net.trace.push(Obs::Event { node: 0, text: "DISCONNECT".into() });
			net.reconnect(0, 1); net.trace.push(Obs::Event { node: 0, text: "RECONNECT".into() });
			for _ in 0..6 { if let Some((i, j)) = net.any_queued() { net.deliver(i, j); } }
			net.sample_balances(c); sample_stats(&mut net, c); continue;
		}
		// C01 (seeded C01-r5): a node is persisted NOW (ChannelManager + monitors), crashes and comes back from exactly that, between any
		// two protocol messages; the peer sees a disconnection. `restart_from` pushes the RESTARTED marker (op `restart x` of the model).
		if with_restart && rng.chance(1, 10) {
			let i = rng.below(2) as usize;
			if net.pending_updates(i, c).is_empty() && !net.in_progress[i] {
				if let Err(e) = net.restart(i) { viol.push(format!("node {} could not be reloaded from what it had just persisted: {}", i, e)); }
				net.process_events(i);
				net.sample_balances(c); sample_stats(&mut net, c); continue;
			}
		}
		if with_disc && rng.chance(1, 14) { if linked { net.disconnect(0, 1); net.trace.push(Obs::Event { node: 0, text: "DISCONNECT".into() }); } else { net.reconnect(0, 1); net.trace.push(Obs::Event { node: 0, text: "RECONNECT".into() }); } net.sample_balances(c); sample_stats(&mut net, c); continue; }
		// (only at a quiet moment: timer ticks while a response is outstanding would trip the peer-unresponsive disconnect timer)
		if with_fee && connected && rng.chance(1, 8) && (0..2).all(|i| net.pending_updates(i, c).is_empty()) && { net.settle(6); net.any_queued().is_none() && (0..2).all(|i| net.pending_updates(i, c).is_empty()) } {
			// the funder's fee estimator moves; timer_tick_occurred proposes an update_fee when it can afford it
			let f = match rng.below(4) { 0 => 253, 1 => rng.range(253, 1500) as u32, 2 => rng.range(1500, 6000) as u32, _ => rng.range(253, 20_000) as u32 };
			// both nodes see the same fee environment (their dust-exposure limits are multiples of their OWN estimate)
			for i in 0..2 { *net.nodes[i].fee_estimator.sat_per_kw.lock().unwrap() = f; }
			net.nodes[0].node.timer_tick_occurred();
			net.pump(0);
			net.trace.push(Obs::Event { node: 0, text: format!("FEERATE {}", f) });
			// crossing updates: before the update_fee is delivered the fundee announces several HTLCs of its own (more than the
			// funder's CONCURRENT_INBOUND_HTLC_FEE_BUFFER covers): they are not part of the commitment the funder signed
			if rng.chance(1, 2) {
				for _ in 0..rng.range(3, 5) {
					let ch = net.nodes[1].node.list_channels();
					let (lim, min) = match ch.get(0) { Some(c) => (c.next_outbound_htlc_limit_msat, c.next_outbound_htlc_minimum_msat), None => break };
					let amt = (400_000 + rng.below(900_000)).max(min);
					if amt > lim { break; }
					let _ = net.send(&[1, 0], &[c], amt, 80);
					net.process_events(1);
				}
			}
			net.sample_balances(c); sample_stats(&mut net, c); continue;
		}
		match rng.below(16) {
			0 | 1 | 2 if connected => {
				let (a, b) = if rng.chance(1, 2) || (with_fee && rng.chance(1, 2)) { (0, 1) } else { (1, 0) };
				let lim = net.nodes[a].node.list_channels()[0].next_outbound_htlc_limit_msat;
				let min = net.nodes[a].node.list_channels()[0].next_outbound_htlc_minimum_msat;
				if lim >= min && lim > 0 {
					let sel = if with_fee && a == 0 && rng.chance(1, 2) { 1 } else { rng.below(6) };
					if sel == 5 {
						// outside the reported limits: must be refused locally and leave the channel untouched
						let amt = if rng.chance(1, 2) || min <= 1 { lim + 1 } else { min - 1 };
						net.pump_all(); net.process_events(a); net.pump_all(); // flush unrelated pending effects first
						let before = (net.channel_dump(a), net.channel_dump(b));
						let r = net.send(&[a, b], &[c], amt, 80);
						net.process_events(a);
						let refused = r.is_err() || locally_failed(&net, a, r.as_ref().ok().copied());
						let after = (net.channel_dump(a), net.channel_dump(b));
						if !refused { viol.push(format!("send of {} msat outside [min {}, limit {}] was accepted locally", amt, min, lim)); }
						else if before != after { viol.push(format!("refused send of {} msat (limits [{}, {}]) changed the channel", amt, min, lim)); }
					} else {
						let amt = match sel { 0 => min, 1 => lim, 2 => 354_000 + rng.below(2000), _ => min + rng.below(lim - min + 1) }.clamp(min, lim);
						let raced = with_fee || peer_has_unknown_adds(&net, a, b);
						mark_raced(&net, &mut at_limit, b);
						let r = net.send(&[a, b], &[c], amt, 70 + rng.below(40) as u32);
						net.process_events(a);
						match r {
							Ok(p) if !locally_failed(&net, a, Some(p)) => { if amt == lim { at_limit.push((p, "limit", amt, raced)); } else if amt == min { at_limit.push((p, "minimum", amt, raced)); } },
							Ok(_) => viol.push(format!("send of {} msat inside the reported limits [{}, {}] was refused locally (path failed at once)", amt, min, lim)),
							Err(e) => viol.push(format!("send of {} msat inside the reported limits [{}, {}] was refused locally: {}", amt, min, lim, e)),
						}
					}
				}
			},
			3 | 4 | 5 | 6 | 7 | 8 => { let q: Vec<(usize, usize)> = net.q.iter().filter(|(_, v)| !v.is_empty()).map(|(k, _)| *k).collect(); if !q.is_empty() {
				let (i, j) = *rng.pick(&q);
				let kind = net.deliver(i, j);
				// right after an update_fulfill/fail (its commitment_signed still undelivered) or a commitment_signed, probe the
				// reported limit of the node that just processed it: the limit must be exact in every intermediate state
				if connected && matches!(kind, Some("fulfill") | Some("fail") | Some("cs") | Some("raa")) && rng.chance(1, 3) {
					let lim = net.nodes[j].node.list_channels()[0].next_outbound_htlc_limit_msat;
					let min = net.nodes[j].node.list_channels()[0].next_outbound_htlc_minimum_msat;
					if lim >= min && lim > 0 {
						let raced = with_fee || peer_has_unknown_adds(&net, j, i);
						mark_raced(&net, &mut at_limit, i);
						let r = net.send(&[j, i], &[c], lim, 80);
						net.process_events(j);
						match r {
							Ok(p) if !locally_failed(&net, j, Some(p)) => at_limit.push((p, "limit", lim, raced)),
							_ => viol.push(format!("send of {} msat exactly at the reported limit (right after processing {:?}) was refused locally", lim, kind)),
						}
					}
				}
			} },
			9 | 10 => { let i = rng.below(2) as usize; net.forward(i); net.process_events(i); },
			11 | 12 => {
				// claim or fail a payment that is claimable at its recipient
				let cands: Vec<usize> = (0..net.pays.len()).filter(|p| net.claimable[net.pays[*p].to].iter().any(|c| c.0 == net.pays[*p].hash)).collect();
				if !cands.is_empty() {
					let p = *rng.pick(&cands);
					let to = net.pays[p].to; let h = net.pays[p].hash;
					net.claimable[to].retain(|c| c.0 != h);
					if rng.chance(2, 3) { net.claim(p); } else { user_failed.push(p); net.fail_back(p); }
				}
			},
			13 => { if async_persist { let i = rng.below(2) as usize; if !net.in_progress[i] { net.set_mode(i, true); } } },
			0 | 1 | 2 => {},
			_ => { let i = rng.below(2) as usize; let p = net.pending_updates(i, c); if !p.is_empty() { let id = *rng.pick(&p); net.complete(i, c, id); } },
		}
		net.sample_balances(c); sample_stats(&mut net, c);
	}
	// drain: reconnect, complete everything, deliver everything
	if !net.connected.contains(&(0, 1)) { net.reconnect(0, 1); net.trace.push(Obs::Event { node: 0, text: "RECONNECT".into() }); }
	for i in 0..2 { net.set_mode(i, false); }
	for _ in 0..40 {
		for i in 0..2 { for id in net.pending_updates(i, c) { net.complete(i, c, id); } }
		net.settle(4);
		for p in 0..net.pays.len() { let to = net.pays[p].to; let h = net.pays[p].hash; if net.claimable[to].iter().any(|c| c.0 == h) { net.claimable[to].retain(|c| c.0 != h); net.claim(p); } }
		if net.any_queued().is_none() && (0..2).all(|i| net.pending_updates(i, c).is_empty()) { net.settle(4); if net.any_queued().is_none() { break; } }
	}
	net.sample_balances(c); sample_stats(&mut net, c);
	// everything held behind a monitor update is released once the update completes: after the drain (all updates completed, all
	// messages delivered, everything claimable claimed) every payment has a terminal event at its sender
	if net.closed.is_empty() && !net.trace.iter().any(|o| matches!(o, Obs::ProtoError { .. })) {
		for p in 0..net.pays.len() {
			let h = net.pays[p].hash; let from = net.pays[p].from;
			let done = net.events[from].iter().any(|e| match e { lightning::events::Event::PaymentSent { payment_hash, .. } => *payment_hash == h, lightning::events::Event::PaymentFailed { payment_hash: Some(ph), .. } => *ph == h, _ => false });
			if !done { viol.push(format!("payment #{} ({} msat, n{} -> n{}) has no terminal event (PaymentSent / PaymentFailed) at its sender after the drain: something held behind a monitor update was never released", p, net.pays[p].amt, from, net.pays[p].to)); }
		}
	}
	// the reported limits are exact: an HTLC sent exactly at the limit / minimum is accepted by the peer
	// (it ends up claimable there and, since the drain claims everything claimable, PaymentSent at the sender)
	for (p, what, amt, raced) in at_limit {
		if user_failed.contains(&p) { continue; }
		if with_fee { continue; } // an update_fee in flight changes what the peer evaluates: acceptance of at-limit HTLCs is not judged here
		let h = net.pays[p].hash; let from = net.pays[p].from;
		let sent = net.events[from].iter().any(|e| matches!(e, lightning::events::Event::PaymentSent { payment_hash, .. } if *payment_hash == h));
		if !sent {
			let to = net.pays[p].to;
			let hh = format!("{}", h);
			let why: Vec<String> = net.events[to].iter().filter_map(|e| match e { lightning::events::Event::HTLCHandlingFailed { failure_type, failure_reason, .. } if format!("{:?}", failure_type).contains(&hh) => Some(format!("{:?}", failure_reason).chars().take(120).collect::<String>()), _ => None }).collect();
			// A limit is computed from what the sender knows. When the peer holds (holding cell / in flight) or later originates
			// HTLCs of its own that the sender could not have seen, the commitment the peer evaluates contains more HTLCs (more
			// fee for the funder) than the one the limit was computed for: crossing updates, inherent to the asynchronous
			// protocol, not an inexact limit. Such probes are exempt when the peer's reason is the balance check.
			if raced && why.iter().all(|w| w.contains("ChannelBalanceOverdrawn") || w.contains("FeeSpikeBuffer")) && !why.is_empty() { continue; }
			// same race on the sender's side: the HTLC waited in the sender's holding cell (a commitment was in flight) and no
			// longer fitted when the cell was freed; the peer never saw it
			if raced && why.is_empty() && locally_failed(&net, from, Some(p)) { continue; }
			let ch = &net.nodes[from].node.list_channels();
			let outbound = ch.get(0).map(|c| c.is_outbound).unwrap_or(false);
			viol.push(format!("HTLC of {} msat sent exactly at the reported {} was not accepted by the peer (no PaymentSent after the drain); sender n{} is the {}; crossing updates: {}; peer's HTLCHandlingFailed events: {:?}", amt, what, from, if outbound { "funder" } else { "NON-funder" }, raced, why));
		}
	}
	(net, viol)
}

/// does `b` have outbound HTLCs (holding cell included) that `a` has not received yet?
fn peer_has_unknown_adds(net: &Net, a: usize, b: usize) -> bool {
	let theirs = net.nodes[b].node.list_channels(); let ours = net.nodes[a].node.list_channels();
	match (theirs.get(0), ours.get(0)) {
		(Some(t), Some(o)) => t.pending_outbound_htlcs.iter().any(|h| !o.pending_inbound_htlcs.iter().any(|i| i.payment_hash == h.payment_hash)),
		_ => true,
	}
}
/// node `x` is about to originate a new HTLC: every earlier at-limit probe sent TO `x` that is not settled yet has raced
fn mark_raced(net: &Net, at_limit: &mut Vec<(usize, &'static str, u64, bool)>, x: usize) {
	for e in at_limit.iter_mut() {
		if net.pays[e.0].to != x { continue; }
		let h = net.pays[e.0].hash; let from = net.pays[e.0].from;
		let sent = net.events[from].iter().any(|ev| matches!(ev, lightning::events::Event::PaymentSent { payment_hash, .. } if *payment_hash == h));
		if !sent { e.3 = true; }
	}
}

/// did the sender report the path of payment p as failed without ever putting an HTLC on the wire?
fn locally_failed(net: &Net, a: usize, p: Option<usize>) -> bool {
	let p = match p { Some(p) => p, None => return true };
	let h = net.pays[p].hash;
	net.events[a].iter().any(|e| match e { lightning::events::Event::PaymentPathFailed { payment_hash, .. } => *payment_hash == h, lightning::events::Event::PaymentFailed { payment_hash: Some(ph), .. } => *ph == h, _ => false })
}

/// Deterministic replay of known finding KF-C01-1 (see /verif/known_findings.txt): the NON-funder's reported
/// send limit lets it send a non-dust HTLC whenever the funder can pay `fee(n+1) + reserve`, but the funder's
/// `can_accept_incoming_htlc` needs `fee(n+2)` (fee-spike-buffer HTLC) and fails the HTLC back.
fn probe_fundee_limit() -> Option<String> {
	let cfg = Some(lightning::ln::functional_test_utils::test_legacy_channel_config());
	let mut net = Net::new(2, vec![cfg.clone(), cfg]);
	let c = net.open(0, 1, 100_000, 50_000_000);
	for _ in 0..2 { let p = net.send(&[0, 1], &[c], 19_160_000, 80).ok()?; net.settle(8); net.claim(p); net.settle(8); }
	for i in 0..2 { *net.nodes[i].fee_estimator.sat_per_kw.lock().unwrap() = 10_000; }
	net.nodes[0].node.timer_tick_occurred(); net.pump(0);
	net.settle(8);
	let mut out = None;
	for k in 0..3 {
		let d = net.nodes[1].node.list_channels();
		let (lim, min) = (d[0].next_outbound_htlc_limit_msat, d[0].next_outbound_htlc_minimum_msat);
		let amt = 7_500_000u64;
		if !(min <= amt && amt <= lim) { break; }
		let p = net.send(&[1, 0], &[c], amt, 80).ok()?;
		net.settle(8);
		let h = net.pays[p].hash;
		let accepted = net.claimable[0].iter().any(|x| x.0 == h);
		let reason = net.trace.iter().rev().find_map(|o| if let Obs::Event { node: 0, text } = o { if text.starts_with("HTLCHandlingFailed") { Some(text.clone()) } else { None } } else { None }).unwrap_or_default();
		if !accepted && !(reason.contains("ChannelBalanceOverdrawn") || reason.contains("FeeSpikeBuffer")) { out = Some(format!("fundee-limit probe: HTLC inside the limits failed back for an unexpected reason: {}", reason)); break; }
		if !accepted { out = Some(format!("KF-C01-1 fundee limit ignores the funder's fee-spike-buffer HTLC: HTLC #{} of {} msat inside the reported limits [{}, {}] of the non-funder (100000 sat legacy channel, feerate {:?}, funder balance 11680 sat) was failed back by the peer", k + 1, amt, min, lim, d[0].feerate_sat_per_1000_weight)); break; }
	}
	std::mem::forget(net);
	out
}

/// Text of known finding KF-C01-2 (see /verif/known_findings.txt); oracle messages about it start with exactly this.
const KF_C01_2: &str = "KF-C01-2 holding-cell release re-validates an update_add_htlc after applying a queued removal that leaves in the same batch behind it";

/// One run of the KF-C01-2 set-up on two honest nodes (default config, 1 000 000 sat channel, funder keeps 100 000 sat):
/// the funder holds a fully committed inbound HTLC of 250 000 sat; its own update_fee (253 -> `f2`) + commitment_signed
/// are in flight (AwaitingRemoteRevoke); it claims the inbound HTLC (`with_claim`; -> holding cell) and sends an HTLC
/// exactly at its reported limit (-> holding cell), in the order given by `claim_first`. Then everything is delivered.
/// Returns (limit used, channel closed?, first protocol error).
fn kf_c01_2_run(f2: u32, with_claim: bool, claim_first: bool) -> Option<(u64, bool, String)> {
	let cfg = Some(lightning::ln::functional_test_utils::test_default_channel_config());
	let mut net = Net::new(2, vec![cfg.clone(), cfg]);
	let c = net.open(0, 1, 1_000_000, 900_000_000);
	let p = net.send(&[1, 0], &[c], 250_000_000, 80).ok()?;
	net.settle(8);
	if !net.claimable[0].iter().any(|x| x.0 == net.pays[p].hash) { return None; }
	for i in 0..2 { *net.nodes[i].fee_estimator.sat_per_kw.lock().unwrap() = f2; }
	net.nodes[0].node.timer_tick_occurred(); net.pump(0);
	if net.queued(0, 1) != 2 { return None; } // update_fee + commitment_signed, undelivered
	if with_claim && claim_first { net.claim(p); }
	let lim = net.nodes[0].node.list_channels()[0].next_outbound_htlc_limit_msat;
	net.send(&[0, 1], &[c], lim, 80).ok()?;
	if with_claim && !claim_first { net.claim(p); }
	if net.queued(0, 1) != 2 { return None; } // both went to the holding cell
	net.settle(10);
	let err = net.trace.iter().find_map(|o| if let Obs::ProtoError { text, .. } = o { Some(text.chars().take(220).collect::<String>()) } else { None }).unwrap_or_default();
	let closed = !net.closed.is_empty();
	std::mem::forget(net);
	Some((lim, closed, err))
}

/// Deterministic replay of known finding KF-C01-2: honest operation ends in a force-close. When the holding cell is
/// freed (`free_holding_cell_htlcs`) a queued ClaimHTLC is applied BEFORE the queued AddHTLC is re-validated by
/// `send_htlc`; the inbound HTLC is then LocalRemoved(Fulfill), which `get_next_commitment_htlcs(local=false)` drops
/// and `get_next_commitment_value_to_self_msat(local=false)` credits to the sender. The add fits only thanks to that
/// credit (the sender's own update_fee took effect with the revoke_and_ack), but on the wire it PRECEDES the
/// update_fulfill_htlc of the same batch, so the peer's `validate_update_add_htlc` (its outbound HTLC still Committed:
/// counted, not credited) finds the funder below its reserve and closes. Controls: add queued before the claim, or no
/// claim at all => the add is failed back locally and nothing closes.
fn probe_holding_cell_claim_then_add() -> Option<String> {
	let main = kf_c01_2_run(5321, true, true);
	let ctl_order = kf_c01_2_run(5321, true, false);
	let ctl_noclaim = kf_c01_2_run(5321, false, true);
	for (name, r) in [("add queued before the claim", &ctl_order), ("no claim", &ctl_noclaim)] {
		match r { Some((_, false, _)) => {}, Some((lim, true, e)) => return Some(format!("holding-cell probe: control run ({}) closed the channel: at-limit HTLC of {} msat: {}", name, lim, e)), None => return Some(format!("holding-cell probe: control run ({}) could not be set up", name)) }
	}
	match main {
		None => Some("holding-cell probe: could not be set up".into()),
		Some((_, false, _)) => None,
		Some((lim, true, e)) if e.contains("Remote HTLC add would put them under remote reserve value") =>
			Some(format!("{}: funder (100000 sat of a 1000000 sat channel, default config) with update_fee 253->5321 + commitment_signed in flight claims an inbound 250000000 msat HTLC and then sends {} msat = its reported limit; both wait in the holding cell; on the revoke_and_ack one batch update_add_htlc, update_fulfill_htlc, commitment_signed leaves and the peer force-closes on the add: {} (controls: add queued before the claim -> no closure; no claim -> no closure)", KF_C01_2, lim, e)),
		Some((lim, true, e)) => Some(format!("holding-cell probe: channel closed for an unexpected reason (at-limit HTLC of {} msat): {}", lim, e)),
	}
}

/// C01 (seeded change C01-r4): a queued `update_fee` and a queued at-limit `update_add_htlc` of the FUNDER leave the holding cell in ONE
/// batch. Node 0 (funder, keeps 100 000 sat of a 1 000 000 sat channel) cannot build a commitment (AwaitingRemoteRevoke, or its monitor
/// update is in progress); the fee estimate rises 253 -> `f2` and the timer tick queues the update_fee; then an HTLC of exactly the
/// reported limit is queued. Everything is delivered. `free_holding_cell_htlcs` must release the adds first and test the fee update
/// against a view that contains them (dropping it when it no longer fits): honest operation never ends in a force-closure.
/// Returns (limit, closed?, first protocol error, was an update_fee sent at all).
fn hc_fee_add_run(f2: u32, legacy: bool, via_monitor: bool, at_limit: bool) -> Option<(u64, bool, String, bool)> {
	let cfg = Some(if legacy { lightning::ln::functional_test_utils::test_legacy_channel_config() } else { lightning::ln::functional_test_utils::test_default_channel_config() });
	let mut net = Net::new(2, vec![cfg.clone(), cfg]);
	let c = net.open(0, 1, 1_000_000, 900_000_000);
	if via_monitor { net.set_mode(0, true); }
	net.send(&[0, 1], &[c], 1_000_000, 80).ok()?;
	let q0 = net.queued(0, 1);
	if !via_monitor && q0 != 2 { return None; } // update_add_htlc + commitment_signed undelivered: node 0 awaits the revoke_and_ack
	for i in 0..2 { *net.nodes[i].fee_estimator.sat_per_kw.lock().unwrap() = f2; }
	net.nodes[0].node.timer_tick_occurred(); net.pump(0);
	if net.queued(0, 1) != q0 { return None; } // the update_fee went to the holding cell
	// (control: a small add next to which the fee update still fits must let the update_fee through)
	let lim = if at_limit { net.nodes[0].node.list_channels()[0].next_outbound_htlc_limit_msat } else { 2_000_000 };
	net.send(&[0, 1], &[c], lim, 80).ok()?;
	if net.queued(0, 1) != q0 { return None; } // so did the add
	if via_monitor { net.set_mode(0, false); for id in net.pending_updates(0, c) { net.complete(0, c, id); } }
	net.settle(12);
	let err = net.trace.iter().find_map(|o| if let Obs::ProtoError { text, .. } = o { Some(text.chars().take(220).collect::<String>()) } else { None }).unwrap_or_default();
	let closed = !net.closed.is_empty();
	let fee_sent = net.trace.iter().any(|o| matches!(o, Obs::Msg { from: 0, kind: "fee", .. }));
	std::mem::forget(net);
	Some((lim, closed, err, fee_sent))
}

fn probe_holding_cell_fee_and_add() -> (Vec<String>, u64, u64) {
	let (mut out, mut ran, mut fee_sent_n) = (vec![], 0u64, 0u64);
	for legacy in [true, false] { for via_monitor in [false, true] { for at_limit in [true, false] { for f2 in [600u32, 1000, 1500, 3000, 8000] {
		match guarded(std::panic::AssertUnwindSafe(|| hc_fee_add_run(f2, legacy, via_monitor, at_limit))) {
			Ok(Some((lim, closed, err, fee_sent))) => {
				ran += 1; if fee_sent { fee_sent_n += 1; }
				if closed || !err.is_empty() { out.push(format!("holding-cell release of a queued update_fee (253 -> {}) together with a queued HTLC of {} msat = the funder's reported limit ({} channel, funder keeps 100000 of 1000000 sat, commitment blocked by {}): honest operation ended in a protocol error / closure: {}", f2, lim, if legacy { "legacy" } else { "default-config" }, if via_monitor { "a monitor update in progress" } else { "AwaitingRemoteRevoke" }, err)); }
			},
			Ok(None) => {},
			Err(p) => out.push(format!("holding-cell fee+add probe (f2 {}, legacy {}, via_monitor {}) panicked: {}", f2, legacy, via_monitor, p.chars().take(160).collect::<String>())),
		}
	} } } }
	(out, ran, fee_sent_n)
}

/// Implementation-side pattern of KF-C01-2 in a random scenario: a peer answers an update_add_htlc with "Remote HTLC add would
/// put them under remote reserve value" and that add left its sender in ONE batch together with a removal (update_fulfill /
/// update_fail): adds and removals only share a batch when the holding cell is released. Returns the trace index of the failing delivery.
fn kf_c01_2_pattern(trace: &[Obs]) -> Option<usize> {
	let k_err = trace.iter().position(|o| matches!(o, Obs::ProtoError { text, .. } if text.contains("Remote HTLC add would put them under remote reserve value")))?;
	let (k_dlv, from) = trace[..k_err].iter().enumerate().rev().find_map(|(k, o)| if let Obs::Delivered { from, kind: "add", errors, .. } = o { if *errors > 0 { Some((k, *from)) } else { None } } else { None })?;
	// the last batch `from` queued before that delivery: consecutive update messages closed by its commitment_signed
	let k_cs = trace[..k_dlv].iter().rposition(|o| matches!(o, Obs::Msg { from: f, kind: "cs", .. } if *f == from))?;
	let (mut adds, mut rems) = (0, 0);
	for o in trace[..k_cs].iter().rev() {
		match o { Obs::Msg { from: f, kind, .. } if *f == from => match *kind { "add" => adds += 1, "fulfill" | "fail" | "malformed" => rems += 1, "fee" => {}, _ => break }, _ => break }
	}
	if adds >= 1 && rems >= 1 { Some(k_dlv) } else { None }
}

/// C05: "every secret received from the peer is checked against the commitment point the peer announced before it
/// is accepted and stored". Corrupt the secret (or the next point) of an in-flight revoke_and_ack and deliver it:
/// the receiver must refuse it (protocol error, channel closed), never process it.
fn probe_bad_raa(flip_secret: bool, after_updates: usize) -> Option<String> {
	let mut net = Net::new(2, vec![None, None]);
	let c = net.open(0, 1, 1_000_000, 400_000_000);
	for _ in 0..after_updates { let p = net.send(&[0, 1], &[c], 1_000_000, 80).ok()?; net.settle(8); net.claim(p); net.settle(8); }
	let _p = net.send(&[0, 1], &[c], 2_000_000, 80).ok()?;
	// deliver add + cs to node 1; its revoke_and_ack is now queued 1 -> 0
	for _ in 0..2 { net.deliver(0, 1)?; }
	let q = net.q.get_mut(&(1, 0))?;
	let pos = q.iter().position(|w| matches!(w, Wire::Raa(_)))?;
	if let Wire::Raa(m) = &mut q[pos] {
		if flip_secret { m.per_commitment_secret[7] ^= 0x10; } else {
			// a valid secret for the WRONG commitment: replay the previous revoke_and_ack's secret is not available here; swap two bytes instead
			m.per_commitment_secret.swap(0, 31);
		}
	}
	let before = net.trace.len();
	while let Some(k) = net.deliver(1, 0) { if k == "raa" { break; } }
	let rejected = net.trace[before..].iter().any(|o| matches!(o, Obs::ProtoError { .. })) || !net.closed.is_empty();
	let gone = net.nodes[0].node.list_channels().is_empty() || !net.nodes[0].node.list_channels()[0].is_usable;
	std::mem::forget(net);
	if rejected && gone { None } else { Some(format!("a revoke_and_ack with a corrupted per_commitment_secret (flip_secret={}, after {} updates) was not refused (protocol error seen: {}, channel unusable: {})", flip_secret, after_updates, rejected, gone)) }
}

/// C05 (seeded C05-r4 family): a revoke_and_ack the peer was NOT asked for. Node 0 is the misbehaving peer, node 1 the node under
/// test. The revoke_and_ack is crafted from node 0's real signer (through its ChannelMonitor's signer handle, bypassing the test
/// signer's own policy): the REAL secret of the commitment number `reveal`, so that the secret-vs-point check and the secret store
/// both agree with it, and only the "unexpected revoke_and_ack" rule can refuse it.
fn craft_raa(net: &Net, from: usize, c: usize, reveal: u64, next_for: u64) -> Option<lightning::ln::msgs::RevokeAndACK> {
	use lightning::sign::ChannelSigner;
	let cid = net.chans[c].2;
	let mon = net.nodes[from].chain_monitor.chain_monitor.get_monitor(cid).ok()?;
	let secp = bitcoin::secp256k1::Secp256k1::new();
	let mut out = None;
	mon.do_mut_signer_call(|signer| {
		if let (Ok(s), Ok(p)) = (signer.inner.release_commitment_secret(reveal), signer.inner.get_per_commitment_point(next_for, &secp)) { out = Some((s, p)); }
	});
	let (s, p) = out?;
	Some(lightning::ln::msgs::RevokeAndACK { channel_id: cid, per_commitment_secret: s, next_per_commitment_point: p, release_htlc_message_paths: Vec::new() })
}

/// what node `i`'s ChannelMonitor knows about the counterparty's commitments: (current counterparty commitment number, min seen secret)
fn mon_cp_numbers(net: &Net, i: usize, c: usize) -> Option<(u64, u64)> {
	let m = net.nodes[i].chain_monitor.chain_monitor.get_monitor(net.chans[c].2).ok()?;
	let n = lightning::ln::verif_hooks::monitor_restart_numbers(&*m);
	Some((n[1], n[2]))
}

/// Deliver `raa` from node 0 to node 1 right now (ahead of anything queued) and compare, returning (op line, impl answer, class).
/// Impl-side oracle (independent of the Lean model): if node 1 was not AwaitingRemoteRevoke, the revoke_and_ack must change nothing
/// — same counterparty commitment number and same stored secrets in channel and monitor, no CommitmentSecret monitor update — and
/// must end in a protocol error with the channel unusable; if it was, the number moves by exactly one and the newly stored secret
/// is the one for the old number + 1.
fn deliver_unsolicited(net: &mut Net, c: usize, raa: lightning::ln::msgs::RevokeAndACK, msg_bits: &str, what: &str, viol: &mut Vec<String>) -> Option<(String, String, String)> {
	use lightning::ln::verif_hooks as vh;
	let (cp0, cid) = (net.ids[0], net.chans[c].2);
	let atoms = vh::channel_raa_guard_inputs(net.nodes[1].node, &cp0, &cid)?;
	let t: Vec<&str> = atoms.split(' ').collect();
	let awaiting = t[1].as_bytes()[12] == b'1';
	let cp_next_before: u64 = t[0].parse().ok()?;
	let chan_before = vh::channel_restart_numbers(net.nodes[1].node, &cp0, &cid)?;
	let mon_before = mon_cp_numbers(net, 1, c)?;
	net.q.entry((0, 1)).or_default().push_front(Wire::Raa(raa));
	let before = net.trace.len();
	net.deliver(0, 1)?;
	net.process_events(1);
	let err: Option<(String, String)> = net.trace[before..].iter().find_map(|o| if let Obs::ProtoError { node: 1, text } = o {
		let kind = if text.starts_with("SendErrorMessage") { "close" } else if text.starts_with("DisconnectPeerWithWarning") { "WarnAndDisconnect" } else if text.starts_with("SendWarningMessage") { "Warn" } else { "other" };
		// the trace keeps 200 characters of the action: the full text is in the error message queued for the peer
		let full = net.q.get(&(1, 0)).and_then(|q| q.iter().rev().find_map(|w| if let Wire::Error(m) = w { Some(m.data.clone()) } else { None }));
		let data = full.unwrap_or_else(|| text.split("data: \"").nth(1).map(|x| x.split('"').next().unwrap_or("").to_string()).unwrap_or_default());
		Some((kind.to_string(), data)) } else { None });
	let secret_updates = net.trace[before..].iter().filter(|o| matches!(o, Obs::Update { node: 1, kinds, .. } if kinds.iter().any(|k| *k == "CommitmentSecret"))).count();
	let chan_after = vh::channel_restart_numbers(net.nodes[1].node, &cp0, &cid);
	let mon_after = mon_cp_numbers(net, 1, c)?;
	let usable = net.nodes[1].node.list_channels().iter().any(|d| d.channel_id == cid && d.is_usable);
	let desc = format!("{} (node 1 before: AwaitingRemoteRevoke={}, next counterparty commitment number {}, guard inputs `{}`)", what, awaiting, cp_next_before, atoms);
	if !awaiting {
		if let Some(a) = chan_after { if a[3] != chan_before[3] || a[4] != chan_before[4] { viol.push(format!("unsolicited revoke_and_ack ACCEPTED: {}: counterparty commitment number moved {} -> {} (revoked {} -> {}) without a commitment_signed from us", desc, chan_before[3], a[3], chan_before[4], a[4])); } }
		if mon_after != mon_before { viol.push(format!("unsolicited revoke_and_ack reached the ChannelMonitor: {}: (counterparty commitment number, min seen secret) {:?} -> {:?}", desc, mon_before, mon_after)); }
		if secret_updates != 0 { viol.push(format!("unsolicited revoke_and_ack produced a CommitmentSecret monitor update: {}", desc)); }
		if err.is_none() || usable { viol.push(format!("unsolicited revoke_and_ack not answered by closing the channel with a protocol error: {}: error seen: {:?}, channel still usable: {}", desc, err, usable)); }
	} else if err.is_none() {
		let cp_next_after = vh::channel_raa_guard_inputs(net.nodes[1].node, &cp0, &cid).and_then(|a| a.split(' ').next().and_then(|x| x.parse::<u64>().ok()));
		match chan_after { Some(a) if a[4] + 1 == chan_before[4] && cp_next_after == Some(cp_next_before - 1) => {}, other => viol.push(format!("accepted revoke_and_ack did not move the counterparty commitment numbers by exactly one: {}: next {} -> {:?}, [.., cur, revoked, ..] {:?} -> {:?}", desc, cp_next_before, cp_next_after, chan_before, other)) }
		if mon_after.1 != cp_next_before + 1 || secret_updates != 1 { viol.push(format!("accepted revoke_and_ack: {}: the monitor's min seen secret is {} (expected {}), CommitmentSecret updates: {}", desc, mon_after.1, cp_next_before + 1, secret_updates)); }
	}
	let op = format!("raag {} {}{} {} {}", t[0], t[1], msg_bits, t[2], t[3]);
	let (ans, class) = match &err {
		Some((kind, data)) => (format!("err {} {}", kind, data.replace(' ', "_")), format!("raag:{}:err:{}", what.split(':').next().unwrap_or(""), data.chars().take(40).collect::<String>().replace(' ', "_"))),
		None => {
			let cp_after = vh::channel_raa_guard_inputs(net.nodes[1].node, &cp0, &cid).and_then(|a| a.split(' ').next().and_then(|x| x.parse::<u64>().ok()));
			(format!("ok cp={} idx={}", cp_after.map(|x| x.to_string()).unwrap_or("?".into()), mon_after.1), format!("raag:{}:accepted", what.split(':').next().unwrap_or("")))
		},
	};
	Some((op, ans, class))
}

/// `kind`: 0 idle channel; 1 peer's update_add_htlc pending without commitment_signed (seeded C05-r4); 2 peer's update_fulfill_htlc pending
/// without commitment_signed; 3 a SECOND revoke_and_ack (revealing the then-current secret) right after a solicited one, while node 1
/// expects the peer's commitment_signed; 4 the literal replay of the revoke_and_ack just processed; 5 idle after disconnect + completed
/// reestablish; 6 after reconnect but BEFORE channel_reestablish was processed; 7 peer's update_fee pending without commitment_signed;
/// 8 all-zero secret while a revocation IS owed; 9 the solicited revoke_and_ack (control: must be accepted); 10 node 1's own commitment
/// built but held back by an in-flight monitor update (AwaitingRemoteRevoke is set: accepted, the peer burned its own state);
/// 11 wrong secret (the one of the number below) while a revocation is owed.
fn probe_unsolicited_raa(kind: u8, n_before: usize) -> Option<(Vec<(String, String, String)>, Vec<String>)> {
	use lightning::ln::verif_hooks as vh;
	let mut viol = vec![];
	let mut cases = vec![];
	let mut net = Net::new(2, vec![None, None]);
	let c = net.open(0, 1, 1_000_000, 400_000_000);
	let (id0, id1, cid) = (net.ids[0], net.ids[1], net.chans[c].2);
	for _ in 0..n_before { let p = net.send(&[0, 1], &[c], 1_000_000, 80).ok()?; net.settle(8); net.claim(p); net.settle(8); }
	// node 0's current holder commitment number: the newest state it could (wrongly) revoke
	let cur = |net: &Net| vh::channel_restart_numbers(net.nodes[0].node, &id1, &cid).map(|n| n[2]);
	let tag = |k: &str| format!("{}:after-{}-payments", k, n_before);
	match kind {
		0 => { let n = cur(&net)?; let raa = craft_raa(&net, 0, c, n, n - 2)?; cases.push(deliver_unsolicited(&mut net, c, raa, "1111", &tag("idle"), &mut viol)?); },
		1 => {
			net.send(&[0, 1], &[c], 2_000_000, 80).ok()?;
			if net.deliver(0, 1)? != "add" { return None; } // the commitment_signed stays queued
			let n = cur(&net)?; let raa = craft_raa(&net, 0, c, n, n - 2)?;
			cases.push(deliver_unsolicited(&mut net, c, raa, "1111", &tag("peer-add-pending"), &mut viol)?);
		},
		2 => {
			let p = net.send(&[1, 0], &[c], 2_000_000, 80).ok()?; net.settle(8);
			net.claim(p);
			if net.deliver(0, 1)? != "fulfill" { return None; }
			let n = cur(&net)?; let raa = craft_raa(&net, 0, c, n, n - 2)?;
			cases.push(deliver_unsolicited(&mut net, c, raa, "1111", &tag("peer-fulfill-pending"), &mut viol)?);
		},
		3 | 4 => {
			// node 1 fulfils node 0's HTLC: 1 -> 0 fulfill + cs; 0 -> 1 raa (+ cs, kept queued)
			let p = net.send(&[0, 1], &[c], 2_000_000, 80).ok()?; net.settle(8);
			net.claim(p); net.process_events(1);
			while net.queued(1, 0) > 0 { net.deliver(1, 0)?; }
			let replay = match net.q.get(&(0, 1)).and_then(|q| q.front()) { Some(Wire::Raa(m)) => m.clone(), _ => return None };
			if net.deliver(0, 1)? != "raa" { return None; } // the solicited one; node 0's commitment_signed is still queued
			if kind == 3 { let n = cur(&net)?; let raa = craft_raa(&net, 0, c, n, n - 2)?; cases.push(deliver_unsolicited(&mut net, c, raa, "1111", &tag("second-raa-while-expecting-cs"), &mut viol)?); }
			else { cases.push(deliver_unsolicited(&mut net, c, replay, "1011", &tag("replayed-raa"), &mut viol)?); }
		},
		5 | 6 => {
			net.disconnect(0, 1); net.reconnect(0, 1);
			if kind == 5 { net.settle(8); }
			let n = cur(&net)?; let raa = craft_raa(&net, 0, c, n, n - 2)?;
			cases.push(deliver_unsolicited(&mut net, c, raa, "1111", &tag(if kind == 5 { "idle-after-reestablish" } else { "before-reestablish" }), &mut viol)?);
		},
		7 => {
			{ let mut f = net.nodes[0].fee_estimator.sat_per_kw.lock().unwrap(); *f += 100; }
			net.nodes[0].node.timer_tick_occurred(); net.pump(0);
			if net.deliver(0, 1)? != "fee" { return None; }
			let n = cur(&net)?; let raa = craft_raa(&net, 0, c, n, n - 2)?;
			cases.push(deliver_unsolicited(&mut net, c, raa, "1111", &tag("peer-fee-pending"), &mut viol)?);
		},
		8 | 9 | 11 => {
			net.send(&[0, 1], &[c], 2_000_000, 80).ok()?;
			for _ in 0..2 { net.deliver(0, 1)?; } // add + cs: node 1 answers raa + cs
			while net.queued(1, 0) > 0 { net.deliver(1, 0)?; } // node 0 answers with the solicited raa (+ cs)
			let q = net.q.get_mut(&(0, 1))?;
			let raa = match q.pop_front() { Some(Wire::Raa(m)) => m, _ => return None };
			match kind {
				8 => { let mut m = raa.clone(); m.per_commitment_secret = [0; 32]; cases.push(deliver_unsolicited(&mut net, c, m, "0111", &tag("zero-secret-while-owed"), &mut viol)?); },
				11 => { let n = cur(&net)?; let m = craft_raa(&net, 0, c, n, n - 2)?; cases.push(deliver_unsolicited(&mut net, c, m, "1011", &tag("next-secret-while-owed"), &mut viol)?); },
				_ => { cases.push(deliver_unsolicited(&mut net, c, raa, "1111", &tag("solicited"), &mut viol)?); },
			}
		},
		_ => {
			net.set_mode(1, true);
			net.send(&[1, 0], &[c], 2_000_000, 80).ok()?; // commitment built, AwaitingRemoteRevoke set, messages held
			let n = cur(&net)?; let raa = craft_raa(&net, 0, c, n, n - 2)?;
			cases.push(deliver_unsolicited(&mut net, c, raa, "1111", &tag("own-commitment-built-not-released"), &mut viol)?);
		},
	}
	let _ = id0;
	std::mem::forget(net);
	Some((cases, viol))
}

/// C05, holder side ("a broadcast state is never revoked"): node 1's ChannelMonitor signs / queues its latest holder commitment
/// (`sign`: ChannelMonitor::broadcast_latest_holder_commitment_txn => holder_tx_signed), then node 0 sends update_add_htlc +
/// commitment_signed. Impl oracle: node 1 must NOT release a revoke_and_ack (its signer's `last_holder_revoked_commitment` stays
/// where it was), although the monitor did take the new holder commitment. Control (`sign` = false): the revoke_and_ack is released
/// once the update completes and the revoked number is exactly the old holder commitment number. Op line `hgate` for the model.
fn probe_signed_then_cs(sign: bool, persist_completed: bool) -> Option<(String, String, String, Vec<String>)> {
	use lightning::ln::verif_hooks as vh;
	let mut viol = vec![];
	let mut net = Net::new(2, vec![None, None]);
	let c = net.open(0, 1, 1_000_000, 400_000_000);
	let (id0, cid) = (net.ids[0], net.chans[c].2);
	let p = net.send(&[0, 1], &[c], 1_000_000, 80).ok()?; net.settle(8); net.claim(p); net.settle(8);
	let holder_before = vh::channel_restart_numbers(net.nodes[1].node, &id0, &cid)?[2];
	let revoked_of = |net: &Net| -> Option<u64> { let mut r = None; net.nodes[1].chain_monitor.chain_monitor.get_monitor(cid).ok()?.do_mut_signer_call(|s| { r = Some(s.get_enforcement_state().last_holder_revoked_commitment); }); r };
	let revoked_before = revoked_of(&net)?;
	if sign {
		let n = &net.nodes[1];
		n.chain_monitor.chain_monitor.get_monitor(cid).ok()?.broadcast_latest_holder_commitment_txn(&n.tx_broadcaster, &n.fee_estimator, &n.logger);
	}
	if !persist_completed { net.set_mode(1, true); }
	net.send(&[0, 1], &[c], 2_000_000, 80).ok()?;
	let before = net.trace.len();
	for _ in 0..2 { net.deliver(0, 1)?; } // add + commitment_signed
	let raa_now = net.trace[before..].iter().any(|o| matches!(o, Obs::Msg { from: 1, kind: "raa", .. }));
	let mon_holder = { let m = net.nodes[1].chain_monitor.chain_monitor.get_monitor(cid).ok()?; vh::monitor_restart_numbers(&*m)[0] };
	let pending = net.pending_updates(1, c);
	// let whatever is in flight complete, and the node process its monitor events
	net.set_mode(1, false);
	for id in pending.clone() { net.complete(1, c, id); }
	net.process_events(1); net.pump(1);
	let raa_later = net.trace[before..].iter().any(|o| matches!(o, Obs::Msg { from: 1, kind: "raa", .. }));
	let revoked_after = revoked_of(&net)?;
	if sign {
		if raa_later || revoked_after != revoked_before { viol.push(format!("holder commitment {} was handed to the signer for broadcast (holder_tx_signed) and then REVOKED: a commitment_signed received afterwards (persister {}) released a revoke_and_ack (seen: {}), signer's last revoked holder commitment {} -> {}", holder_before, if persist_completed { "Completed" } else { "InProgress" }, raa_later, revoked_before, revoked_after)); }
	} else {
		if !raa_later || revoked_after != holder_before { viol.push(format!("control: revoke_and_ack after a completed holder commitment update: seen {}, revoked number {} (expected {})", raa_later, revoked_after, holder_before)); }
		if !persist_completed && raa_now { viol.push("control: revoke_and_ack released while the holder commitment update was still InProgress".to_string()); }
	}
	// did the holder-commitment update reach the monitor at all? (after a signature the manager processes the monitor's
	// HolderForceClosed event first and closes the channel: the commitment_signed then finds no channel)
	let reached = net.trace[before..].iter().any(|o| matches!(o, Obs::Update { node: 1, kinds, .. } if kinds.iter().any(|k| k.starts_with("HolderCommitment"))));
	let closed = !net.nodes[1].node.list_channels().iter().any(|d| d.channel_id == cid);
	if reached && mon_holder != holder_before - 1 { viol.push(format!("the monitor did not take the new holder commitment: number {} (expected {})", mon_holder, holder_before - 1)); }
	if !sign && !reached { viol.push("control: no holder commitment monitor update was generated".to_string()); }
	let op = format!("hgate 0 0 {} {} {} {}", sign as u8, persist_completed as u8, holder_before, (!reached && closed) as u8);
	let released_at_once = raa_now as u8;
	let held = if raa_now { "-".to_string() } else { format!("{}:{}", holder_before, if raa_later { 0 } else { 1 }) };
	let ans = if !reached && closed { "disabled".to_string() } else { format!("mon={} released={} held={}", mon_holder, released_at_once, held) };
	std::mem::forget(net);
	Some((op, ans, format!("hgate:signed={}:persist={}:{}", sign, persist_completed, if reached { "update-reached-monitor" } else { "channel-closed-first" }), viol))
}

/// C05: a `commitment_signed` whose HTLC signatures are missing, surplus, permuted or signatures of something else must be
/// refused BEFORE the node revokes its previous state: no `revoke_and_ack` in answer, protocol error, channel unusable.
/// (`kind`: 0 drop the last HTLC signature, 1 drop all, 2 replace one by the commitment signature, 3 swap two, 4 append one)
fn probe_bad_cs(kind: u8, n_htlcs: usize) -> Option<String> {
	let mut net = Net::new(2, vec![None, None]);
	let c = net.open(0, 1, 1_000_000, 400_000_000);
	// n_htlcs - 1 non-dust HTLCs 0 -> 1 stay pending (never claimed); the next commitment_signed carries n_htlcs HTLC signatures
	for _ in 1..n_htlcs { net.send(&[0, 1], &[c], 3_000_000, 80).ok()?; net.settle(8); }
	let _p = net.send(&[0, 1], &[c], 3_100_000, 80).ok()?;
	net.deliver(0, 1)?; // the add
	let q = net.q.get_mut(&(0, 1))?;
	let pos = q.iter().position(|w| matches!(w, Wire::Commit(_)))?;
	let mut applicable = false;
	if let Wire::Commit(v) = &mut q[pos] {
		if let Some(m) = v.get_mut(0) {
			applicable = if m.htlc_signatures.len() != n_htlcs { false } else { match kind {
				0 => { m.htlc_signatures.pop(); true },
				1 => { m.htlc_signatures.clear(); true },
				2 => { let s = m.signature; let k = m.htlc_signatures.len() - 1; m.htlc_signatures[k] = s; true },
				3 => if m.htlc_signatures.len() >= 2 && m.htlc_signatures[0] != m.htlc_signatures[1] { m.htlc_signatures.swap(0, 1); true } else { false },
				_ => { let s = m.htlc_signatures[0]; m.htlc_signatures.push(s); true },
			} };
		}
	}
	if !applicable { std::mem::forget(net); return if kind == 3 { None } else { Some(format!("probe_bad_cs: the commitment_signed does not carry the expected {} HTLC signatures", n_htlcs)) }; }
	let before = net.trace.len();
	while let Some(k) = net.deliver(0, 1) { if k == "cs" { break; } }
	let raa_sent = net.q.get(&(1, 0)).map(|q| q.iter().any(|w| matches!(w, Wire::Raa(_)))).unwrap_or(false);
	let rejected = net.trace[before..].iter().any(|o| matches!(o, Obs::ProtoError { .. })) || !net.closed.is_empty();
	let gone = net.nodes[1].node.list_channels().is_empty() || !net.nodes[1].node.list_channels()[0].is_usable;
	std::mem::forget(net);
	if rejected && gone && !raa_sent { None } else { Some(format!("a commitment_signed with corrupted HTLC signatures (kind {}, {} non-dust HTLCs) was not refused before revoking: revoke_and_ack sent: {}, protocol error seen: {}, channel unusable: {}", kind, n_htlcs, raa_sent, rejected, gone)) }
}

/// C09: a preimage update generated while `held` monitor updates are blocked (the peer's revoke_and_ack behind an unhandled
/// PaymentSent event, then `extra_held` further commitment_signed updates) must jump the queue so that chain::Watch still sees
/// a gap-free, strictly increasing id sequence; nothing panics, every payment completes.
fn probe_jump_over_held(extra_held: usize) -> Option<(u64, Option<String>)> {
	fn drain(net: &mut Net, skip_events_of: Option<usize>) {
		for _ in 0..30 {
			let mut moved = false;
			while let Some((i, j)) = net.any_queued() { net.deliver(i, j); moved = true; }
			for i in 0..2 {
				if net.nodes[i].node.needs_pending_htlc_processing() { net.forward(i); moved = true; }
				if Some(i) != skip_events_of { let b = net.trace.len(); net.process_events(i); if net.trace.len() != b { moved = true; } }
			}
			if !moved { break; }
		}
	}
	let mut net = Net::new(2, vec![None, None]);
	let c = net.open(0, 1, 1_000_000, 400_000_000);
	let p1 = net.send(&[0, 1], &[c], 5_000_000, 80).ok()?; drain(&mut net, None); // claimable at node 1, not claimed yet
	let p2 = net.send(&[1, 0], &[c], 4_000_000, 80).ok()?; drain(&mut net, None); // claimable at node 0
	net.claim(p2); // node 0 fulfils; node 1 leaves its PaymentSent event unhandled from here on
	drain(&mut net, Some(1));
	let mut more = vec![];
	for _ in 0..extra_held { more.push(net.send(&[0, 1], &[c], 3_000_000, 80).ok()?); drain(&mut net, Some(1)); }
	let (cp, cid) = (net.ids[0], net.chans[c].2);
	let held = lightning::ln::verif_hooks::channel_restart_numbers(net.nodes[1].node, &cp, &cid).map(|n| n[5]).unwrap_or(0);
	net.claim(p1); // the preimage update must jump ahead of the held updates
	drain(&mut net, Some(1));
	net.process_events(1); drain(&mut net, None);
	for p in more { net.claim(p); drain(&mut net, None); }
	let mut out = None;
	let mut last: BTreeMap<usize, u64> = BTreeMap::new();
	for o in &net.trace { if let Obs::Update { node, id, .. } = o { if let Some(prev) = last.get(node) { if *id != prev + 1 && out.is_none() { out = Some(format!("update ids handed to chain::Watch are not gap-free at node {}: {} after {}", node, id, prev)); } } last.insert(*node, *id); } }
	if out.is_none() { if let Some(Obs::ProtoError { node, text }) = net.trace.iter().find(|o| matches!(o, Obs::ProtoError { .. })) { out = Some(format!("protocol error at node {}: {}", node, text)); } }
	if out.is_none() && !net.closed.is_empty() { out = Some(format!("channel closed: {:?}", net.closed)); }
	let sent = |net: &Net, p: usize| { let h = net.pays[p].hash; let f = net.pays[p].from; net.events[f].iter().any(|e| matches!(e, lightning::events::Event::PaymentSent { payment_hash, .. } if *payment_hash == h)) };
	if out.is_none() && !(sent(&net, p1) && sent(&net, p2)) { out = Some(format!("payments did not complete (p1 sent: {}, p2 sent: {})", sent(&net, p1), sent(&net, p2))); }
	std::mem::forget(net);
	Some((held, out.map(|m| format!("preimage update ahead of {} held monitor updates (1 revoke_and_ack update behind an unhandled PaymentSent + {} later updates): {}", held, extra_held, m))))
}

/// C09 (seeded C09-r4 family): a ShutdownScript monitor update (generated only with `commit_upfront_shutdown_pubkey = false`) must
/// queue behind held (RAA-blocked) monitor updates. Node 1 holds a revoke_and_ack update behind an unhandled PaymentSent event
/// (+ `extra` later updates); then a cooperative close starts — `local`: node 1 calls close_channel itself (get_shutdown), else node 0
/// does and node 1 handles the peer's shutdown (FundedChannel::shutdown). chain::Watch must still see gap-free increasing ids, nothing panics.
fn probe_shutdown_while_held(local: bool, extra: usize, in_flight: bool) -> Option<(u64, Option<String>)> {
	fn drain(net: &mut Net, skip_events_of: Option<usize>) {
		for _ in 0..30 {
			let mut moved = false;
			while let Some((i, j)) = net.any_queued() { net.deliver(i, j); moved = true; }
			for i in 0..2 {
				if net.nodes[i].node.needs_pending_htlc_processing() { net.forward(i); moved = true; }
				if Some(i) != skip_events_of { let b = net.trace.len(); net.process_events(i); if net.trace.len() != b { moved = true; } }
			}
			if !moved { break; }
		}
	}
	let mut cfg = lightning::ln::functional_test_utils::test_default_channel_config();
	cfg.channel_handshake_config.commit_upfront_shutdown_pubkey = false;
	let mut net = Net::new(2, vec![Some(cfg.clone()), Some(cfg)]);
	let c = net.open(0, 1, 1_000_000, 400_000_000);
	let p2 = net.send(&[1, 0], &[c], 4_000_000, 80).ok()?; drain(&mut net, None);
	net.claim(p2); // node 0 fulfils; node 1 leaves its PaymentSent event unhandled: its next revoke_and_ack update is held
	drain(&mut net, Some(1));
	for _ in 0..extra { net.send(&[0, 1], &[c], 3_000_000, 80).ok()?; drain(&mut net, Some(1)); }
	let (cp, cid) = (net.ids[0], net.chans[c].2);
	let held = lightning::ln::verif_hooks::channel_restart_numbers(net.nodes[1].node, &cp, &cid).map(|n| n[5]).unwrap_or(0);
	if in_flight { net.set_mode(1, true); }
	let r = if local { net.nodes[1].node.close_channel(&cid, &net.ids[0]) } else { net.nodes[0].node.close_channel(&cid, &net.ids[1]) };
	// get_shutdown refuses while a monitor update is outstanding or HTLCs are pending: that combination is not reachable (counted, not a failure)
	if r.is_err() { std::mem::forget(net); return Some((u64::MAX, None)); }
	net.pump(0); net.pump(1);
	drain(&mut net, Some(1));
	net.set_mode(1, false);
	for _ in 0..6 { for id in net.pending_updates(1, c) { net.complete(1, c, id); } drain(&mut net, Some(1)); }
	net.process_events(1); drain(&mut net, None);
	for _ in 0..6 { for i in 0..2 { for id in net.pending_updates(i, c) { net.complete(i, c, id); } } drain(&mut net, None); }
	let mut out = None;
	let mut last: BTreeMap<usize, u64> = BTreeMap::new();
	let mut saw_script = false;
	for o in &net.trace { if let Obs::Update { node, id, kinds, .. } = o { if kinds.iter().any(|k| *k == "ShutdownScript") { saw_script = true; } if let Some(prev) = last.get(node) { if *id != prev + 1 && out.is_none() { out = Some(format!("update ids handed to chain::Watch are not gap-free / increasing at node {}: {} after {}", node, id, prev)); } } last.insert(*node, *id); } }
	if out.is_none() && !saw_script { out = Some("no ShutdownScript monitor update was generated (set-up no longer reaches the case)".into()); }
	if out.is_none() { if let Some(Obs::ProtoError { node, text }) = net.trace.iter().find(|o| matches!(o, Obs::ProtoError { .. })) { out = Some(format!("protocol error at node {}: {}", node, text)); } }
	std::mem::forget(net);
	Some((held, out.map(|m| format!("ShutdownScript update with {} held monitor updates ({} shutdown, {} extra updates, persister {}): {}", held, if local { "local" } else { "peer-initiated" }, extra, if in_flight { "InProgress" } else { "Completed" }, m))))
}

/// C09: everything held behind a monitor update is released when the updates complete — also when a SECOND update is
/// generated on the channel while the first is still in flight. Node 0 learns through node 1's final revoke_and_ack that its
/// payment p2 failed while that RAA's monitor update is InProgress (the failure is held); before it completes, node 0
/// generates another update (`second`: 0 = claims the inbound payment p1, 1 = fails p1 back, 2 = nothing); the updates then
/// complete in ascending or descending order. Afterwards p2 must have its PaymentFailed, p1 its outcome, nothing is stuck.
fn probe_second_update_while_paused(second: u8, descending: bool) -> Option<String> {
	fn drain(net: &mut Net) {
		for _ in 0..30 {
			let mut moved = false;
			while let Some((i, j)) = net.any_queued() { net.deliver(i, j); moved = true; }
			for i in 0..2 { if net.nodes[i].node.needs_pending_htlc_processing() { net.forward(i); moved = true; } let b = net.trace.len(); net.process_events(i); if net.trace.len() != b { moved = true; } }
			if !moved { break; }
		}
	}
	let mut net = Net::new(2, vec![None, None]);
	let c = net.open(0, 1, 1_000_000, 500_000_000);
	let p1 = net.send(&[1, 0], &[c], 1_000_000, 80).ok()?; drain(&mut net); // claimable at node 0, not claimed
	let p2 = net.send(&[0, 1], &[c], 500_000, 80).ok()?; drain(&mut net);   // claimable at node 1
	net.fail_back(p2);
	if net.nodes[1].node.needs_pending_htlc_processing() { net.forward(1); }
	net.process_events(1);
	// 1 -> 0: update_fail + commitment_signed; 0 -> 1: revoke_and_ack + commitment_signed; 1 -> 0: the final revoke_and_ack (kept queued)
	while net.queued(1, 0) > 0 { net.deliver(1, 0)?; }
	while net.queued(0, 1) > 0 { net.deliver(0, 1)?; }
	if net.queued(1, 0) != 1 { std::mem::forget(net); return Some("probe_second_update_while_paused: could not reach the state with only the final revoke_and_ack queued".into()); }
	net.set_mode(0, true);
	net.deliver(1, 0)?; // the failure becomes irrevocable, its monitor update is InProgress: nothing may be released yet
	let early = net.events[0].iter().any(|e| matches!(e, lightning::events::Event::PaymentFailed { .. }));
	match second { 0 => net.claim(p1), 1 => net.fail_back(p1), _ => {} }
	if net.nodes[0].node.needs_pending_htlc_processing() { net.forward(0); }
	let mut ids = net.pending_updates(0, c);
	if descending { ids.reverse(); }
	for id in ids { net.complete(0, c, id); }
	net.set_mode(0, false);
	for _ in 0..6 { for id in net.pending_updates(0, c) { net.complete(0, c, id); } drain(&mut net); }
	let h2 = net.pays[p2].hash; let h1 = net.pays[p1].hash;
	let failed2 = net.events[0].iter().any(|e| matches!(e, lightning::events::Event::PaymentFailed { payment_hash: Some(h), .. } if *h == h2));
	let p1_done = match second { 0 => net.events[1].iter().any(|e| matches!(e, lightning::events::Event::PaymentSent { payment_hash, .. } if *payment_hash == h1)), 1 => net.events[1].iter().any(|e| matches!(e, lightning::events::Event::PaymentFailed { payment_hash: Some(h), .. } if *h == h1)), _ => true };
	let stuck = net.nodes[0].node.list_recent_payments().len();
	let err = net.trace.iter().any(|o| matches!(o, Obs::ProtoError { .. })) || !net.closed.is_empty();
	let tail: Vec<String> = net.trace.iter().filter(|o| !matches!(o, Obs::Balance { .. })).map(fmt_obs).collect::<Vec<_>>().into_iter().rev().take(28).rev().collect();
	std::mem::forget(net);
	if std::env::var("VERIF_TRACE").is_ok() { eprintln!("probe_second_update_while_paused({}, {}):\n  {}", second, descending, tail.join("\n  ")); }
	if early { return Some(format!("held payment failure released while its monitor update was still InProgress (second={}, descending={})", second, descending)); }
	if failed2 && p1_done && !err && stuck == 0 { None } else { Some(format!("a second monitor update generated while the first was in flight (second={}, completion descending={}): held payment failure released: {}, other payment resolved: {}, payments still listed at node 0: {}, protocol error / closure: {}", second, descending, failed2, p1_done, stuck, err)) }
}

/// Deterministic probe for C09 (known finding KF-C09-1): an inbound channel whose INITIAL monitor persist is still
/// InProgress sees the funding confirmation and the peer's channel_ready; after a reconnect `channel_reestablish`
/// retransmits channel_ready although the initial ChannelMonitor has not been reported durable.
fn probe_channel_ready_leak() -> Option<String> {
	use lightning::chain::ChannelMonitorUpdateStatus;
	use lightning::ln::functional_test_utils::*;
	use lightning::ln::msgs::{self, BaseMessageHandler, ChannelMessageHandler, MessageSendEvent};
	let net = Net::new(2, vec![None, None]);
	let nodes = &net.nodes;
	let (a, b) = (net.ids[0], net.ids[1]);
	fn take<F: Fn(&MessageSendEvent) -> bool>(evs: Vec<MessageSendEvent>, f: F) -> Option<MessageSendEvent> { evs.into_iter().find(|e| f(e)) }
	nodes[0].node.create_channel(b, 100000, 10001, 43, None, None).ok()?;
	let open = match take(nodes[0].node.get_and_clear_pending_msg_events(), |e| matches!(e, MessageSendEvent::SendOpenChannel { .. }))? { MessageSendEvent::SendOpenChannel { msg, .. } => msg, _ => return None };
	handle_and_accept_open_channel(&nodes[1], a, &open);
	let accept = match take(nodes[1].node.get_and_clear_pending_msg_events(), |e| matches!(e, MessageSendEvent::SendAcceptChannel { .. }))? { MessageSendEvent::SendAcceptChannel { msg, .. } => msg, _ => return None };
	nodes[0].node.handle_accept_channel(b, &accept);
	let (temp_id, funding_tx, _) = create_funding_transaction(&nodes[0], &b, 100000, 43);
	nodes[0].node.funding_transaction_generated(temp_id, b, funding_tx.clone()).ok()?;
	net.persisters[1].set_update_ret(ChannelMonitorUpdateStatus::InProgress);
	let created = match take(nodes[0].node.get_and_clear_pending_msg_events(), |e| matches!(e, MessageSendEvent::SendFundingCreated { .. }))? { MessageSendEvent::SendFundingCreated { msg, .. } => msg, _ => return None };
	nodes[1].node.handle_funding_created(a, &created);
	let signed = match take(nodes[1].node.get_and_clear_pending_msg_events(), |e| matches!(e, MessageSendEvent::SendFundingSigned { .. }))? { MessageSendEvent::SendFundingSigned { msg, .. } => msg, _ => return None };
	nodes[0].node.handle_funding_signed(b, &signed);
	let _ = nodes[0].node.get_and_clear_pending_events();
	confirm_transaction(&nodes[0], &funding_tx);
	let ready_a = match take(nodes[0].node.get_and_clear_pending_msg_events(), |e| matches!(e, MessageSendEvent::SendChannelReady { .. }))? { MessageSendEvent::SendChannelReady { msg, .. } => msg, _ => return None };
	nodes[1].node.handle_channel_ready(a, &ready_a);
	confirm_transaction(&nodes[1], &funding_tx);
	// while connected and in flight nothing may be released
	let early = nodes[1].node.get_and_clear_pending_msg_events().iter().any(|e| matches!(e, MessageSendEvent::SendChannelReady { .. }));
	let pending = !nodes[1].chain_monitor.chain_monitor.list_pending_monitor_updates().values().all(|v| v.is_empty());
	nodes[0].node.peer_disconnected(b); nodes[1].node.peer_disconnected(a);
	let init_b = msgs::Init { features: nodes[1].node.init_features(), networks: None, remote_network_address: None };
	let init_a = msgs::Init { features: nodes[0].node.init_features(), networks: None, remote_network_address: None };
	nodes[0].node.peer_connected(b, &init_b, true).ok()?;
	let re_a = match take(nodes[0].node.get_and_clear_pending_msg_events(), |e| matches!(e, MessageSendEvent::SendChannelReestablish { .. }))? { MessageSendEvent::SendChannelReestablish { msg, .. } => msg, _ => return None };
	nodes[1].node.peer_connected(a, &init_a, false).ok()?;
	let _ = nodes[1].node.get_and_clear_pending_msg_events();
	nodes[1].node.handle_channel_reestablish(a, &re_a);
	let leaked = nodes[1].node.get_and_clear_pending_msg_events().iter().any(|e| matches!(e, MessageSendEvent::SendChannelReady { .. }));
	let still_pending = !nodes[1].chain_monitor.chain_monitor.list_pending_monitor_updates().values().all(|v| v.is_empty());
	std::mem::forget(net);
	if early { return Some("channel_ready released while the initial monitor persist was in flight (connected case)".into()); }
	if leaked && pending && still_pending { Some("KF-C09-1 channel_reestablish retransmits channel_ready while the INITIAL ChannelMonitor persist of the inbound channel is still InProgress (funding confirmed and peer's channel_ready received before the completion; reconnect)".into()) } else { None }
}

/// C09 "exactly the held messages are released": an inbound channel whose initial monitor persist is InProgress, under
/// EVERY order of {funding confirms at B, A's channel_ready arrives, disconnect, reconnect, persist completes}.
/// Returns oracle messages (KF-C09-1-tagged for the known early retransmission on reestablish).
fn probe_open_orders() -> Vec<String> {
	use lightning::chain::ChannelMonitorUpdateStatus;
	use lightning::ln::functional_test_utils::*;
	use lightning::ln::msgs::{BaseMessageHandler, ChannelMessageHandler, MessageSendEvent};
	let mut out = vec![];
	let mut orders: Vec<Vec<u8>> = vec![];
	fn perms(cur: &mut Vec<u8>, used: &mut [bool; 5], acc: &mut Vec<Vec<u8>>) {
		if cur.len() == 5 { acc.push(cur.clone()); return; }
		for e in 0..5u8 { if used[e as usize] { continue; } if e == 3 && !used[2] { continue; } used[e as usize] = true; cur.push(e); perms(cur, used, acc); cur.pop(); used[e as usize] = false; }
	}
	perms(&mut vec![], &mut [false; 5], &mut orders);
	for order in orders {
		let r = guarded(std::panic::AssertUnwindSafe(|| -> Option<Vec<String>> {
			let mut v = vec![];
			let mut net = Net::new(2, vec![None, None]);
			let (a, b) = (net.ids[0], net.ids[1]);
			let take = |evs: Vec<MessageSendEvent>, want: &str| evs.into_iter().find(|e| format!("{:?}", e).starts_with(want));
			net.nodes[0].node.create_channel(b, 100000, 10001, 43, None, None).ok()?;
			let open = match take(net.nodes[0].node.get_and_clear_pending_msg_events(), "SendOpenChannel")? { MessageSendEvent::SendOpenChannel { msg, .. } => msg, _ => return None };
			handle_and_accept_open_channel(&net.nodes[1], a, &open);
			let accept = match take(net.nodes[1].node.get_and_clear_pending_msg_events(), "SendAcceptChannel")? { MessageSendEvent::SendAcceptChannel { msg, .. } => msg, _ => return None };
			net.nodes[0].node.handle_accept_channel(b, &accept);
			let (temp_id, funding_tx, _) = create_funding_transaction(&net.nodes[0], &b, 100000, 43);
			net.nodes[0].node.funding_transaction_generated(temp_id, b, funding_tx.clone()).ok()?;
			net.persisters[1].set_update_ret(ChannelMonitorUpdateStatus::InProgress);
			let created = match take(net.nodes[0].node.get_and_clear_pending_msg_events(), "SendFundingCreated")? { MessageSendEvent::SendFundingCreated { msg, .. } => msg, _ => return None };
			net.nodes[1].node.handle_funding_created(a, &created);
			let signed = match take(net.nodes[1].node.get_and_clear_pending_msg_events(), "SendFundingSigned")? { MessageSendEvent::SendFundingSigned { msg, .. } => msg, _ => return None };
			net.nodes[0].node.handle_funding_signed(b, &signed);
			let _ = net.nodes[0].node.get_and_clear_pending_events();
			let cid = net.nodes[0].node.list_channels().get(0)?.channel_id;
			confirm_transaction(&net.nodes[0], &funding_tx);
			net.pump(0); // A's channel_ready is now queued 0 -> 1
			let mut completed = false;
			let mut after_reconnect = false;
			for ev in &order {
				let n_before = net.trace.len();
				match ev {
					0 => { confirm_transaction(&net.nodes[1], &funding_tx); net.pump(1); },
					1 => { while net.queued(0, 1) > 0 { net.deliver(0, 1); } },
					2 => { net.disconnect(0, 1); },
					3 => { net.reconnect(0, 1); for _ in 0..12 { if let Some((i, j)) = net.any_queued() { net.deliver(i, j); } } after_reconnect = true; },
					_ => { for id in net.nodes[1].chain_monitor.chain_monitor.list_pending_monitor_updates().get(&cid).cloned().unwrap_or_default() { let _ = net.nodes[1].chain_monitor.chain_monitor.channel_monitor_updated(cid, id); } net.pump(1); completed = true; },
				}
				let b_ready = net.trace[n_before..].iter().any(|o| matches!(o, Obs::Msg { from: 1, kind: "ready", .. }));
				if b_ready && !completed {
					if after_reconnect && *ev == 3 { v.push("KF-C09-1 channel_reestablish retransmits channel_ready while the INITIAL ChannelMonitor persist of the inbound channel is still InProgress".to_string()); }
					else { v.push(format!("channel_ready released by the inbound side before its initial monitor persist completed (event order {:?}, at event {})", order, ev)); }
				}
				after_reconnect = false;
			}
			if !net.connected.contains(&(0, 1)) { net.reconnect(0, 1); }
			for _ in 0..40 { if let Some((i, j)) = net.any_queued() { net.deliver(i, j); } else { break; } }
			net.pump_all();
			for _ in 0..40 { if let Some((i, j)) = net.any_queued() { net.deliver(i, j); } else { break; } }
			let usable = (0..2).all(|i| net.nodes[i].node.list_channels().get(0).map(|c| c.is_channel_ready).unwrap_or(false));
			if !usable { v.push(format!("held channel_ready never released: after every event of order {:?} happened and all messages were delivered, the channel is not ready on both sides", order)); }
			std::mem::forget(net);
			Some(v)
		}));
		match r { Ok(Some(v)) => out.extend(v), Ok(None) => {}, Err(p) => out.push(format!("open-order probe {:?} panicked: {}", order, p.chars().take(160).collect::<String>())) }
	}
	out.sort(); out.dedup();
	out
}

/// C09, channel-side gate model (`Gate` of Model/MonGate.lean, decisions translated by tools/gen_mongate.py): random
/// schedules on two real nodes with async persistence, out-of-order completion, a node that leaves its events unhandled for a
/// while (RAA-blocked monitor updates), claims / fail-backs while paused and reconnects while in flight. Every
/// ChannelMonitorUpdate the trace shows becomes ONE model op chosen from its step kinds; after every harness action the real
/// channel's gate (hook `channel_monitor_gate_dump`: MonitorUpdateInProgress, monitor_pending_* flags and vector lengths,
/// latest_monitor_update_id, blocked ids) and what left the node (ids handed to chain::Watch, raa / cs / channel_ready in
/// order) are compared with the model's. The held-vector inputs of a revoke_and_ack op are derived independently from the
/// HTLC lists before / after (list_channels), not from the monitor_pending_* fields.
fn gate_scenario(rng: &mut Rng, sc: usize, steps: usize, rec: &mut Rec) {
	use lightning::ln::channel_state::{InboundHTLCStateDetails as I, OutboundHTLCStateDetails as O};
	let mut net = Net::new(2, vec![None, None]);
	let c = net.open(0, 1, 1_000_000, 400_000_000);
	let key = |x: usize| format!("g{}n{}", sc, x);
	let dump = |net: &Net, x: usize| lightning::ln::verif_hooks::channel_monitor_gate_dump(net.nodes[x].node, &net.ids[1 - x], &net.chans[c].2);
	let field = |d: &str, k: &str| -> String { d.split_whitespace().find_map(|w| w.strip_prefix(&format!("{}=", k)).map(|v| v.to_string())).unwrap_or_default() };
	let blocked_of = |d: &str| -> Vec<(u64, String)> { let b = field(d, "blocked"); if b == "-" || b.is_empty() { vec![] } else { b.split(';').filter_map(|e| { let mut it = e.splitn(2, ':'); Some((it.next()?.parse().ok()?, it.next().unwrap_or("").to_string())) }).collect() } };
	let htlcs = |net: &Net, x: usize| -> (Vec<(u64, u8)>, Vec<(u64, u8)>) {
		let ch = net.nodes[x].node.list_channels();
		match ch.get(0) { None => (vec![], vec![]), Some(d) => (
			d.pending_outbound_htlcs.iter().filter_map(|h| Some((h.htlc_id?, match h.state { Some(O::AwaitingRemoteRevokeToRemoveSuccess) => 1u8, Some(O::AwaitingRemoteRevokeToRemoveFailure) => 2, _ => 0 }))).collect(),
			d.pending_inbound_htlcs.iter().map(|h| (h.htlc_id, match h.state { Some(I::AwaitingRemoteRevokeToAdd) => 1u8, Some(I::Committed) => 2, _ => 0 })).collect()) }
	};
	for x in 0..2 { let d = dump(&net, x).unwrap_or_default(); rec.directive(&format!("ginit {} {}", key(x), field(&d, "latest"))); }
	let mut pos = net.trace.len();
	let mut dead = false;
	let mut skip_events: Option<usize> = None;
	let mut before: Vec<(String, (Vec<(u64, u8)>, Vec<(u64, u8)>))> = (0..2).map(|x| (dump(&net, x).unwrap_or_default(), htlcs(&net, x))).collect();
	for step in 0..steps + 40 {
		let draining = step >= steps;
		let linked = net.connected.contains(&(0, 1));
		// ---- one action --------------------------------------------------------------------------------
		if draining {
			if !linked { net.reconnect(0, 1); net.trace.push(Obs::Event { node: 0, text: "RECONNECT".into() }); }
			else if let Some(x) = (0..2).find(|x| !net.pending_updates(*x, c).is_empty()) { net.set_mode(x, false); let id = net.pending_updates(x, c)[0]; net.complete(x, c, id); }
			else if let Some((i, j)) = net.any_queued() { net.deliver(i, j); }
			else if skip_events.is_some() { skip_events = None; }
			else { let mut moved = false; for i in 0..2 { if net.nodes[i].node.needs_pending_htlc_processing() { net.forward(i); moved = true; } let b = net.trace.len(); net.process_events(i); if net.trace.len() != b { moved = true; } }
				if !moved { let cl: Vec<usize> = (0..net.pays.len()).filter(|p| net.claimable[net.pays[*p].to].iter().any(|c| c.0 == net.pays[*p].hash)).collect();
					if let Some(p) = cl.first() { let to = net.pays[*p].to; let h = net.pays[*p].hash; net.claimable[to].retain(|c| c.0 != h); net.claim(*p); } else if step > steps + 4 { break; } } }
		} else {
			match rng.below(20) {
				0 | 1 | 2 if linked => { let (a, b) = if rng.chance(1, 2) { (0, 1) } else { (1, 0) }; let _ = net.send(&[a, b], &[c], 1_000_000 + rng.below(2_000_000), 80); },
				3 | 4 | 5 | 6 | 7 | 8 | 9 => { let q: Vec<(usize, usize)> = net.q.iter().filter(|(_, v)| !v.is_empty()).map(|(k, _)| *k).collect(); if !q.is_empty() { let (i, j) = *rng.pick(&q); net.deliver(i, j); } },
				10 | 11 => { let i = rng.below(2) as usize; if net.nodes[i].node.needs_pending_htlc_processing() { net.forward(i); } if Some(i) != skip_events { net.process_events(i); } },
				12 | 13 => { let cands: Vec<usize> = (0..net.pays.len()).filter(|p| net.claimable[net.pays[*p].to].iter().any(|c| c.0 == net.pays[*p].hash)).collect();
					if !cands.is_empty() { let p = *rng.pick(&cands); let to = net.pays[p].to; let h = net.pays[p].hash; net.claimable[to].retain(|c| c.0 != h); if rng.chance(2, 3) { net.claim(p); } else { net.fail_back(p); } } },
				14 => { let i = rng.below(2) as usize; if !net.in_progress[i] { net.set_mode(i, true); } },
				15 => { if skip_events.is_none() { skip_events = Some(rng.below(2) as usize); } else if rng.chance(1, 2) { skip_events = None; } },
				16 if rng.chance(1, 2) => { if linked { net.disconnect(0, 1); net.trace.push(Obs::Event { node: 0, text: "DISCONNECT".into() }); } else { net.reconnect(0, 1); net.trace.push(Obs::Event { node: 0, text: "RECONNECT".into() }); } },
				_ => { let i = rng.below(2) as usize; let p = net.pending_updates(i, c); if !p.is_empty() { let id = *rng.pick(&p); net.complete(i, c, id); } },
			}
		}
		if dead { pos = net.trace.len(); continue; }
		// ---- the action as model ops -------------------------------------------------------------------
		let after: Vec<(String, (Vec<(u64, u8)>, Vec<(u64, u8)>))> = (0..2).map(|x| (dump(&net, x).unwrap_or_default(), htlcs(&net, x))).collect();
		if after.iter().any(|a| a.0.is_empty()) || !net.closed.is_empty() { dead = true; continue; }
		for x in 0..2 {
			let (d0, (out0, in0)) = &before[x]; let (d1, (out1, in1)) = &after[x];
			let mut blocked_ids: Vec<u64> = blocked_of(d0).iter().map(|b| b.0).collect();
			let n_blocked_before = blocked_ids.len();
			if std::env::var("VERIF_GDBG").is_ok() { eprintln!("g{} n{} d0={} ids={:?}", sc, x, d0, blocked_ids); }
			// what a revoke_and_ack processed in this action made irrevocable (independent of the monitor_pending_* fields)
			let gone = |st: u8| out0.iter().filter(|(id, s)| *s == st && !out1.iter().any(|(i2, _)| i2 == id)).count();
			let (n_ff, n_fl) = (gone(1), gone(2));
			let n_adds = in0.iter().filter(|(id, s)| *s == 1 && in1.iter().any(|(i2, s2)| i2 == id && *s2 == 2)).count();
			let op_of = |kinds: &str, handed: bool, ip: bool, unblocked: bool| -> Option<String> {
				let has = |k: &str| kinds.split(|ch| ch == ',' || ch == '+').any(|w| w.starts_with(k));
				let built = has("CounterpartyCommitment");
				if unblocked { return Some(format!("gunblock {} {}", key(x), ip as u8)); }
				if has("HolderCommitment") { Some(format!("gcs {} {} 0 {}", key(x), built as u8, ip as u8)) }
				else if has("CommitmentSecret") { Some(format!("graa {} 0 {} {} {} 0 {} {} {}", key(x), built as u8, !handed as u8, n_adds, n_fl, n_ff, ip as u8)) }
				else if has("PaymentPreimage") { Some(format!("gclaim {} {} {}", key(x), !built as u8, ip as u8)) }
				else if built && kinds.split(',').count() == 1 { Some(format!("gsend {} {}", key(x), ip as u8)) }
				else if has("ShutdownScript") && kinds.split(',').count() == 1 { Some(format!("gother {} {}", key(x), ip as u8)) }
				else { None }
			};
			let (mut hand, mut msgs): (Vec<String>, Vec<String>) = (vec![], vec![]);
			let mut n_unblocked = 0usize; let mut n_raa_ops = 0usize;
			for o in &net.trace[pos..] {
				match o {
					Obs::Update { node, id, kinds, in_progress, .. } if *node == x => {
						let ks = kinds.join(",");
						let is_claim = kinds.first() == Some(&"PaymentPreimage");
						let unb = blocked_ids.first() == Some(id) && !is_claim;
						if unb { blocked_ids.remove(0); n_unblocked += 1; } else if is_claim { for b in blocked_ids.iter_mut() { *b += 1; } }
						if kinds.iter().any(|k| *k == "CommitmentSecret") && !unb { n_raa_ops += 1; }
						match op_of(&ks, true, *in_progress, unb) { Some(op) => rec.directive(&op), None => { dead = true; } }
						hand.push(id.to_string());
					},
					Obs::Completed { node, id, .. } if *node == x => rec.directive(&format!("gdone {} {}", key(x), id)),
					Obs::Msg { from, kind, .. } if *from == x && ["raa", "cs", "ready"].contains(kind) => msgs.push(kind.to_string()),
					Obs::Event { text, .. } if text == "DISCONNECT" => rec.directive(&format!("gdisc {}", key(x))),
					Obs::Delivered { to, kind: "reestablish", .. } if *to == x => {
						// what the peer lost is read off the outcome (message seen, or the monitor_pending flag set); whether it is HELD or sent is the model's decision
						let seg = &net.trace[pos..];
						let sent = |k: &str| seg.iter().any(|o| matches!(o, Obs::Msg { from, kind, .. } if *from == x && *kind == k));
						// (a flag set by a LATER update of the same action, e.g. the holding cell freed after the reestablish, is not the reestablish's)
						let quiet = !seg.iter().any(|o| matches!(o, Obs::Update { node, .. } if *node == x));
						if !quiet { dead = true; } // reestablish + a new update in ONE harness action: what the reestablish alone released cannot be read off the trace
						// channel_ready is retransmitted only in state ChannelReady with both sides on the initial commitment number (case 2; not gated: KF-C09-1)
						rec.directive(&format!("greest {} {} {} {}", key(x), (sent("raa") || (quiet && field(d1, "raa") == "1")) as u8, (sent("cs") || (quiet && field(d1, "cs") == "1")) as u8, if sent("ready") { 2 } else { 0 }));
					},
					_ => {},
				}
			}
			// updates generated in this action but queued behind blocked ones (not handed): the tail of the blocked list
			let bl1 = blocked_of(d1);
			let n_new = (bl1.len() + n_unblocked).saturating_sub(n_blocked_before);
			for (_, kinds) in bl1.iter().skip(bl1.len() - n_new.min(bl1.len())) {
				if kinds.contains("CommitmentSecret") { n_raa_ops += 1; }
				match op_of(kinds, false, false, false) { Some(op) => rec.directive(&op), None => { dead = true; } }
			}
			if n_raa_ops > 1 { dead = true; } // two revoke_and_acks in one action: the HTLC-list delta cannot be split
			if dead { break; }
			let bl: Vec<String> = bl1.iter().map(|b| b.0.to_string()).collect();
			let j = |v: &Vec<String>| if v.is_empty() { "-".to_string() } else { v.join(",") };
			let want = format!("paused={} raa={} cs={} rdy={} adds={} fw={} fl={} ff={} latest={} blocked={} disc={} hand={} msgs={}", field(d1, "paused"), field(d1, "raa"), field(d1, "cs"), field(d1, "rdy"),
				field(d1, "adds"), field(d1, "fw"), field(d1, "fl"), field(d1, "ff"), field(d1, "latest"), j(&bl), field(d1, "disc"), j(&hand), j(&msgs));
			let class = format!("gate:paused={}:blocked={}:held={}{}", field(d1, "paused"), bl.len().min(2), (field(d1, "adds") != "0" || field(d1, "fl") != "0" || field(d1, "ff") != "0") as u8, if msgs.is_empty() { "" } else { ":release" });
			let nontrivial = !hand.is_empty() || !msgs.is_empty() || d0 != d1;
			rec.case(&format!("gdump {}", key(x)), &want, &class, nontrivial);
		}
		before = after;
		pos = net.trace.len();
	}
	if dead { *rec.classes.entry("gate:scenario-left-the-modelled-ops".into()).or_insert(0) += 1; }
	std::mem::forget(net);
}

/// C01, cooperative close end to end: at the (quiescent) end of a scenario the two real nodes shut the channel down with random,
/// independent fee estimates (and sometimes a target feerate); every closing_signed (fee, fee_range) and the broadcast closing
/// transactions are recorded. Returns the `coopclose` op line for the `chan` model (which negotiates from ITS balances), the
/// implementation's answer line, implementation-side oracle violations (independent of the model: each party is paid its pre-close
/// balance less only the negotiated fee, both broadcast the same transaction, the fee lies in both advertised ranges) and a class.
fn coop_close(net: &mut Net, c: usize, rng: &mut Rng) -> Option<(String, String, Vec<String>, String)> {
	use lightning::chain::chaininterface::ConfirmationTarget;
	use lightning::ln::verif_hooks as vh;
	let mut viol = vec![];
	let cid = net.chans[c].2;
	let ids = [net.ids[0], net.ids[1]];
	let ch: Vec<_> = (0..2).map(|i| net.nodes[i].node.list_channels().into_iter().find(|d| d.channel_id == cid)).collect();
	let (ch0, ch1) = (ch[0].clone()?, ch[1].clone()?);
	if !(ch0.is_usable && ch1.is_usable) { return None; }
	if [&ch0, &ch1].iter().any(|d| !d.pending_inbound_htlcs.is_empty() || !d.pending_outbound_htlcs.is_empty()) { return None; }
	if (0..2).any(|i| !net.pending_updates(i, c).is_empty()) || net.any_queued().is_some() { return None; }
	let bal = [vh::channel_value_to_self_msat(net.nodes[0].node, &ids[1], &cid)?, vh::channel_value_to_self_msat(net.nodes[1].node, &ids[0], &cid)?];
	let chan_sat = ch0.channel_value_satoshis;
	let funder = if ch0.is_outbound { 0 } else { 1 };
	let fundee = 1 - funder;
	let dets = [ch0.clone(), ch1.clone()];
	let funding = ch0.funding_txo?.into_bitcoin_outpoint();
	// independent fee environments
	let mut est = [0u32; 2];
	for i in 0..2 {
		est[i] = match rng.below(5) { 0 => 253, 1 => 253 + rng.below(600) as u32, 2 => 500 + rng.below(3000) as u32, 3 => rng.below(253) as u32, _ => if i == 0 { 1000 } else { est[0] } };
		let normal = if rng.chance(1, 2) { est[i] } else { est[i] + rng.below(4000) as u32 };
		let mut ov = net.nodes[i].fee_estimator.target_override.lock().unwrap();
		ov.insert(ConfirmationTarget::ChannelCloseMinimum, est[i]);
		ov.insert(ConfirmationTarget::NonAnchorChannelFee, normal);
	}
	let initiator = rng.below(2) as usize;
	let target: Option<u32> = if rng.chance(1, 3) { Some(253 + rng.below(6000) as u32) } else { None };
	// each node's own fee range, from the real calculate_closing_fee_limits on its own current state
	let mut lim = [(0u64, 0u64); 2];
	for i in 0..2 {
		let d = &dets[i];
		let fc = d.config.map(|c| c.force_close_avoidance_max_fee_satoshis).unwrap_or(1000);
		let t = if i == initiator { target } else { None };
		let r = vh::channel_closing_probe(net.nodes[i].node, &ids[1 - i], &cid, bal[i], chan_sat, 354, d.is_outbound, 0, false, t, d.feerate_sat_per_1000_weight.unwrap_or(253), fc)?;
		lim[i] = r.1.ok()?;
	}
	let before_errs = net.trace.iter().filter(|o| matches!(o, Obs::ProtoError { .. })).count();
	let r = if target.is_some() { net.nodes[initiator].node.close_channel_with_feerate_and_script(&cid, &ids[1 - initiator], target, None) } else { net.nodes[initiator].node.close_channel(&cid, &ids[1 - initiator]) };
	if r.is_err() { for i in 0..2 { net.nodes[i].fee_estimator.target_override.lock().unwrap().clear(); } return None; }
	let mut msgs: Vec<(usize, u64, Option<(u64, u64)>)> = vec![];
	let mut scripts: [Option<bitcoin::ScriptBuf>; 2] = [None, None];
	for _ in 0..60 {
		net.pump_all();
		for i in 0..2 { for id in net.pending_updates(i, c) { net.complete(i, c, id); } }
		let (i, j) = match net.any_queued() { Some(x) => x, None => { for i in 0..2 { net.process_events(i); } if net.any_queued().is_none() { break; } continue; } };
		match net.q.get(&(i, j)).and_then(|q| q.front()) {
			Some(Wire::ClosingSigned(m)) => msgs.push((i, m.fee_satoshis, m.fee_range.as_ref().map(|r| (r.min_fee_satoshis, r.max_fee_satoshis)))),
			Some(Wire::Shutdown(m)) => scripts[i] = Some(m.scriptpubkey.clone()),
			_ => {},
		}
		net.deliver(i, j);
	}
	for i in 0..2 { net.process_events(i); }
	for i in 0..2 { net.nodes[i].fee_estimator.target_override.lock().unwrap().clear(); }
	let errs: Vec<String> = net.trace.iter().filter_map(|o| if let Obs::ProtoError { text, .. } = o { Some(text.clone()) } else { None }).skip(before_errs).collect();
	// the closing transaction each node broadcast (spends the funding output, no HTLC/commitment structure: locktime 0, sequence max)
	let mut bcast: [Option<(u64, u64, u64, String)>; 2] = [None, None]; // (fee, to node 0, to node 1, txid)
	for i in 0..2 {
		let txs = net.nodes[i].tx_broadcaster.txn_broadcasted.lock().unwrap().clone();
		if let Some(tx) = txs.iter().rev().find(|t| t.input.len() == 1 && t.input[0].previous_output == funding && t.input[0].sequence == bitcoin::Sequence::MAX) {
			let val = |k: usize| -> u64 { scripts[k].as_ref().map(|s| tx.output.iter().filter(|o| &o.script_pubkey == s).map(|o| o.value.to_sat()).sum()).unwrap_or(0) };
			let total: u64 = tx.output.iter().map(|o| o.value.to_sat()).sum();
			if val(0) + val(1) != total { viol.push(format!("cooperative close: the closing transaction of node {} pays {} sat to scripts that are neither party's shutdown script", i, total - val(0) - val(1))); }
			bcast[i] = Some((chan_sat - total, val(0), val(1), tx.compute_txid().to_string()));
		}
	}
	// ---- implementation-side oracle ---------------------------------------------------------------------------------------
	let neg_fee = msgs.last().map(|m| m.1);
	match (&bcast[0], &bcast[1]) {
		(Some(a), Some(b)) => {
			if a.3 != b.3 { viol.push(format!("cooperative close: the two nodes broadcast DIFFERENT closing transactions ({} vs {})", a.3, b.3)); }
			let f = neg_fee.unwrap_or(0);
			let cut = |x: u64| if x <= 354 { 0 } else { x };
			let mut want = [0u64; 2];
			want[funder] = cut((bal[funder] / 1000).saturating_sub(f));
			want[fundee] = cut(bal[fundee] / 1000);
			if bal[funder] / 1000 < f { viol.push(format!("cooperative close: negotiated fee {} exceeds the funder's balance {} msat", f, bal[funder])); }
			if [a.1, a.2] != want { viol.push(format!("cooperative close: the closing transaction pays ({}, {}) sat to (node 0, node 1); pre-close balances ({}, {}) msat, funder = node {}, negotiated fee {}: each party must get its balance less only the negotiated fee, i.e. ({}, {})", a.1, a.2, bal[0], bal[1], funder, f, want[0], want[1])); }
			let dropped = (if want[0] == 0 { if funder == 0 { (bal[0] / 1000).saturating_sub(f) } else { bal[0] / 1000 } } else { 0 }) + (if want[1] == 0 { if funder == 1 { (bal[1] / 1000).saturating_sub(f) } else { bal[1] / 1000 } } else { 0 });
			let rem = if bal[0] % 1000 == 0 { 0 } else { 1 };
			if a.0 != f + dropped + rem { viol.push(format!("cooperative close: the transaction's fee {} is not the negotiated fee {} + dust outputs {} + sub-satoshi remainder {}", a.0, f, dropped, rem)); }
			for (i, fee, range) in &msgs { if let Some((lo, hi)) = range { if fee < lo && !(*i == fundee && hi < lo) { viol.push(format!("cooperative close: node {} proposed fee {} below its own advertised minimum {}", i, fee, lo)); } if fee > hi && !(*i == fundee && hi < lo) { viol.push(format!("cooperative close: node {} proposed fee {} above its own advertised maximum {}", i, fee, hi)); } } }
			if f < lim[funder].0 || f > lim[funder].1 || f > lim[fundee].1 { viol.push(format!("cooperative close: negotiated fee {} outside the funder's range {:?} or above the fundee's maximum {}", f, lim[funder], lim[fundee].1)); }
			if f < lim[fundee].0 { viol.push(format!("cooperative close: the fundee signed and broadcast a closing transaction at fee {} below its own minimum {} (funder range {:?}, fundee range {:?}, funder balance {} msat)", f, lim[fundee].0, lim[funder], lim[fundee], bal[funder])); }
		},
		(None, None) => { if errs.is_empty() { viol.push(format!("cooperative close: negotiation ended without a broadcast and without an error ({} closing_signed exchanged)", msgs.len())); } },
		_ => viol.push(format!("cooperative close: only one node broadcast a closing transaction (node 0: {}, node 1: {}); errors: {:?}", bcast[0].is_some(), bcast[1].is_some(), errs.iter().map(|e| e.chars().take(100).collect::<String>()).collect::<Vec<_>>())),
	}
	let ms: Vec<String> = msgs.iter().map(|(_, f, r)| format!("{}:{}", f, r.map(|(a, b)| format!("{}:{}", a, b)).unwrap_or("-".into()))).collect();
	let sh = |b: &Option<(u64, u64, u64, String)>| b.as_ref().map(|x| format!("{}/{}/{}", neg_fee.unwrap_or(x.0), x.1, x.2)).unwrap_or("-".into());
	let err = if bcast[0].is_some() || bcast[1].is_some() || errs.is_empty() { "-" } else if errs.iter().any(|e| e.contains("Warning") || e.contains("warning")) { "warn" } else { "close" };
	let op = format!("coopclose {} {} {} {} {} {} {}", chan_sat, 354, 354, lim[0].0, lim[0].1, lim[1].0, lim[1].1);
	let ans = format!("msgs={} a={} b={} err={}", ms.join(","), sh(&bcast[0]), sh(&bcast[1]), err);
	let class = format!("coopclose:{}:{}msgs{}", if bcast[0].is_some() { "done" } else { err }, msgs.len(), if bcast[0].as_ref().map(|b| b.1 == 0 || b.2 == 0).unwrap_or(false) { ":dust-output" } else { "" });
	Some((op, ans, viol, class))
}

/// C01 (seeded change C01-r5): RESTART IN EVERY WINDOW. One of seven short protocol scripts is started on two honest nodes
/// (node 0 = funder of a 1 000 000 sat channel, 400 000 sat pushed), `k` of its messages are delivered one at a time (oldest first,
/// the 0 -> 1 stream preferred), then node `who` is persisted (ChannelManager + monitors as they are right now) and reloaded from
/// exactly that (`impl Writeable for FundedChannel` / `ReadableArgs`), `action` happens while the peers are disconnected (0 nothing;
/// 1 the claimable payment is claimed: the claim waits in the holding cell and leaves with a commitment_signed of its own right inside
/// channel_reestablish; 2 it is failed back; 3 the restarted node sends an HTLC of its own), the peers reconnect and everything is
/// delivered (`first`: which direction is drained first, so that retransmissions and fresh updates cross in both orders).
///   script 0: payment 0 -> 1 claimable, funder's update_fee (253 -> f2) + commitment_signed      1: payment 1 -> 0 claimable, same fee update
///   script 2: update_add_htlc 0 -> 1 + commitment_signed     3: payment 0 -> 1 claimable and claimed: update_fulfill_htlc + commitment_signed
///   script 5 / 6: payment 0 -> 1 claimable, the fundee's update_add_htlc + commitment_signed cross the funder's update_fee + commitment_signed
///   (window delivery prefers the 0 -> 1 / the 1 -> 0 stream): the fee update waits AwaitingRemoteRevokeToAnnounce on the fundee
///   script 4: payment 1 -> 0 claimable, funder's update_fee + commitment_signed in flight and an update_add_htlc 0 -> 1 queued behind it
/// What the writer must drop / rewind for updates the peer announced but never committed (RemoteAnnounced inbound HTLCs and the
/// `next_counterparty_htlc_id` rewind, a fundee's RemoteAnnounced `pending_update_fee`, RemoteRemoved -> Committed) and what it must keep
/// (holding cell, LocalAnnounced / AwaitingRemoteRevoke state for retransmission) decides whether the two nodes still build the same
/// commitment afterwards. Oracle (implementation only): honest operation never ends in a protocol error / closure, both nodes end at
/// the same feerate, settled balances add up to the channel value, every payment reaches a terminal event, and the channel still
/// carries a payment each way. Returns Ok(None) when the script has fewer than `k` messages.
fn restart_window_run(script: u8, k: usize, who: usize, action: u8, first: usize, f2: u32) -> Option<Result<(String, Vec<String>), String>> {
	let cfg = Some(lightning::ln::functional_test_utils::test_default_channel_config());
	let mut net = Net::new(2, vec![cfg.clone(), cfg]);
	let c = net.open(0, 1, 1_000_000, 400_000_000);
	let mut viol = vec![];
	let bump = |net: &mut Net| { for i in 0..2 { *net.nodes[i].fee_estimator.sat_per_kw.lock().unwrap() = f2; } net.nodes[0].node.timer_tick_occurred(); net.pump(0); };
	// the payment that is claimable (and not yet claimed) when the node restarts, if the script has one
	let mut claimable: Option<usize> = None;
	match script {
		0 => { let p = net.send(&[0, 1], &[c], 30_000_000, 80).ok()?; net.settle(8); claimable = Some(p); bump(&mut net); },
		1 => { let p = net.send(&[1, 0], &[c], 30_000_000, 80).ok()?; net.settle(8); claimable = Some(p); bump(&mut net); },
		2 => { net.send(&[0, 1], &[c], 30_000_000, 80).ok()?; },
		3 => { let p = net.send(&[0, 1], &[c], 30_000_000, 80).ok()?; net.settle(8); net.claim(p); net.process_events(1); },
		4 => { let p = net.send(&[1, 0], &[c], 20_000_000, 80).ok()?; net.settle(8); claimable = Some(p);
			for i in 0..2 { *net.nodes[i].fee_estimator.sat_per_kw.lock().unwrap() = f2; }
			net.nodes[0].node.timer_tick_occurred(); net.send(&[0, 1], &[c], 30_000_000, 80).ok()?; },
		// crossing updates: the fundee's own update_add_htlc + commitment_signed are in flight (it is AwaitingRemoteRevoke) when the funder's
		// update_fee + commitment_signed arrive, so the fee update stays AwaitingRemoteRevokeToAnnounce on the fundee for a while
		_ => { let p = net.send(&[0, 1], &[c], 30_000_000, 80).ok()?; net.settle(8); claimable = Some(p);
			net.send(&[1, 0], &[c], 20_000_000, 80).ok()?; bump(&mut net); },
	}
	if let Some(p) = claimable { if !net.claimable[net.pays[p].to].iter().any(|x| x.0 == net.pays[p].hash) { return Some(Err("set-up: payment not claimable".into())); } }
	let mut window = vec![];
	for _ in 0..k {
		// scripts 0..5 prefer the 0 -> 1 stream inside the window, script 6 (= script 5's set-up) the 1 -> 0 stream
		let pf = if script == 6 { 1 } else { 0 };
		let dir = if net.queued(pf, 1 - pf) > 0 { (pf, 1 - pf) } else if net.queued(1 - pf, pf) > 0 { (1 - pf, pf) } else { std::mem::forget(net); return None; };
		match net.deliver(dir.0, dir.1) { Some(kind) => window.push(format!("{}>{}:{}", dir.0, dir.1, kind)), None => { std::mem::forget(net); return None; } }
	}
	let next = if net.queued(0, 1) > 0 { net.q[&(0, 1)].front().map(|w| format!("0>1:{}", w.kind())) } else { net.q.get(&(1, 0)).and_then(|q| q.front()).map(|w| format!("1>0:{}", w.kind())) }.unwrap_or("quiet".into());
	let desc = format!("restart-window script {} (f2 {}): node {} ({}) persisted + reloaded after [{}] (next undelivered: {}), while disconnected: {}, after reconnect the {}>{} stream first",
		script, f2, who, if who == 0 { "funder" } else { "fundee" }, window.join(" "), next,
		match action { 0 => "nothing", 1 => "the claimable payment is claimed (holding cell)", 2 => "the claimable payment is failed back (holding cell)", _ => "the restarted node sends an HTLC (holding cell)" }, first, 1 - first);
	let class = format!("restartwin:s{}:{}:{}:a{}", script, if who == 0 { "funder" } else { "fundee" }, next.split(':').nth(1).unwrap_or("quiet"), action);
	if let Err(e) = net.restart(who) { std::mem::forget(net); return Some(Ok((class, vec![format!("{}: the persisted node could not be reloaded: {}", desc, e)]))); }
	net.process_events(who);
	match (action, claimable) {
		(1, Some(p)) => { net.claim(p); let to = net.pays[p].to; net.process_events(to); },
		(2, Some(p)) => { net.fail_back(p); let to = net.pays[p].to; net.forward(to); net.process_events(to); },
		(3, _) => { let _ = net.send(&[who, 1 - who], &[c], 5_000_000, 80); net.process_events(who); },
		(0, _) => {},
		_ => { std::mem::forget(net); return None; }, // nothing claimable in this script
	}
	net.reconnect(0, 1);
	for _ in 0..60 {
		let dir = if net.queued(first, 1 - first) > 0 { (first, 1 - first) } else if net.queued(1 - first, first) > 0 { (1 - first, first) } else { break };
		net.deliver(dir.0, dir.1);
		for i in 0..2 { if net.nodes[i].node.needs_pending_htlc_processing() { net.forward(i); } net.process_events(i); }
	}
	net.settle(10);
	// claim what is still claimable, and let everything complete
	for p in 0..net.pays.len() { let to = net.pays[p].to; let h = net.pays[p].hash; if net.claimable[to].iter().any(|x| x.0 == h) && !net.events[to].iter().any(|e| matches!(e, lightning::events::Event::PaymentClaimed { payment_hash, .. } if *payment_hash == h)) && !(action == 2 && claimable == Some(p)) { net.claimable[to].retain(|x| x.0 != h); net.claim(p); } }
	net.settle(10);
	let first_err = net.trace.iter().find_map(|o| if let Obs::ProtoError { node, text } = o { Some(format!("node {}: {}", node, text.chars().take(220).collect::<String>())) } else { None });
	if let Some(e) = &first_err { viol.push(format!("{}: honest operation ended in a protocol error: {}", desc, e)); }
	if !net.closed.is_empty() { viol.push(format!("{}: honest operation ended in a closure: {:?}", desc, net.closed)); }
	if first_err.is_none() && net.closed.is_empty() {
		let d: Vec<_> = (0..2).map(|i| net.nodes[i].node.list_channels()).collect();
		if d[0].len() != 1 || d[1].len() != 1 || !d[0][0].is_usable || !d[1][0].is_usable { viol.push(format!("{}: the channel is not usable on both sides afterwards", desc)); }
		else {
			if d[0][0].feerate_sat_per_1000_weight != d[1][0].feerate_sat_per_1000_weight { viol.push(format!("{}: the two nodes end at different feerates: {:?} vs {:?}", desc, d[0][0].feerate_sat_per_1000_weight, d[1][0].feerate_sat_per_1000_weight)); }
			let pend = d[0][0].pending_inbound_htlcs.len() + d[0][0].pending_outbound_htlcs.len() + d[1][0].pending_inbound_htlcs.len() + d[1][0].pending_outbound_htlcs.len();
			let cid = net.chans[c].2;
			let v0 = lightning::ln::verif_hooks::channel_value_to_self_msat(net.nodes[0].node, &net.ids[1], &cid);
			let v1 = lightning::ln::verif_hooks::channel_value_to_self_msat(net.nodes[1].node, &net.ids[0], &cid);
			if pend != 0 { viol.push(format!("{}: {} HTLC entries are still pending after everything was delivered and claimed", desc, pend)); }
			else if let (Some(v0), Some(v1)) = (v0, v1) { if v0 + v1 != 1_000_000_000 { viol.push(format!("{}: settled balances {} + {} != channel value", desc, v0, v1)); } }
			// the channel still works in both directions
			for (a, b) in [(0usize, 1usize), (1, 0)] {
				match net.send(&[a, b], &[c], 1_000_000, 80) {
					Ok(p) => { net.settle(10); net.claim(p); net.settle(10); let h = net.pays[p].hash;
						if !net.events[a].iter().any(|e| matches!(e, lightning::events::Event::PaymentSent { payment_hash, .. } if *payment_hash == h)) {
							let e = net.trace.iter().find_map(|o| if let Obs::ProtoError { node, text } = o { Some(format!("node {}: {}", node, text.chars().take(200).collect::<String>())) } else { None }).unwrap_or_default();
							viol.push(format!("{}: a later payment {} -> {} did not complete {}", desc, a, b, e)); } },
					Err(e) => viol.push(format!("{}: a later payment {} -> {} was refused: {}", desc, a, b, e)),
				}
			}
		}
	}
	std::mem::forget(net);
	Some(Ok((class, viol)))
}

/// the whole family: every script x every window x both nodes x every applicable action x both delivery orders (quick: one order per run, alternating)
fn probe_restart_windows(thorough: bool, rec: &mut Rec) {
	let mut n = 0u64;
	for script in 0..7u8 { for who in 0..2usize { for action in 0..4u8 { for k in 0..14usize {
		let orders: &[usize] = if thorough { &[0, 1] } else if (k + action as usize + who) % 2 == 0 { &[1] } else { &[0] };
		let mut exhausted = false;
		for &first in orders {
			let f2 = if (script as usize + k) % 2 == 0 { 453 } else { 1200 };
			match guarded(std::panic::AssertUnwindSafe(|| restart_window_run(script, k, who, action, first, f2))) {
				Ok(Some(Ok((class, viol)))) => { n += 1; *rec.classes.entry(class).or_insert(0) += 1; for v in viol { rec.oracle_fail(v); } },
				Ok(Some(Err(e))) => rec.oracle_fail(format!("restart-window probe (script {}, k {}, node {}, action {}) could not be set up: {}", script, k, who, action, e)),
				Ok(None) => { exhausted = true; },
				Err(p) => rec.oracle_fail(format!("restart-window probe (script {}, after {} messages, node {} restarted, action {}, order {}) panicked: {}", script, k, who, action, first, p.chars().take(240).collect::<String>())),
			}
		}
		if exhausted { break; }
	} } } }
	*rec.classes.entry("probe:restart-windows:ran".into()).or_insert(0) += n;
}

fn nm(i: usize) -> &'static str { if i == 0 { "a" } else { "b" } }

fn main() {
	let args = &parse_args("chan");
	silence_stdout();
	let mut rec = Rec::new(&args.out, &args.model);
	let mut rng = Rng::new(args.seed);
	let n_scen = if args.thorough { 400 } else { 24 } * args.scale as usize;
	let mut reached_in: BTreeMap<String, u64> = BTreeMap::new();
	if args.model == "chan" && std::env::var("VERIF_PROPERTY").map(|p| p == "C05").unwrap_or(true) {
		for (flip, n) in [(true, 0usize), (false, 1), (true, 3)] {
			match guarded(std::panic::AssertUnwindSafe(|| probe_bad_raa(flip, n))) { Ok(Some(m)) => rec.oracle_fail(m), Ok(None) => { *reached_in.entry("bad_raa_refused".into()).or_insert(0) += 1; }, Err(p) => rec.oracle_fail(format!("bad-raa probe panicked: {}", p.chars().take(200).collect::<String>())) }
		}
		rec.notes.insert("bad_raa_probes_refused".into(), format!("{}", reached_in.get("bad_raa_refused").copied().unwrap_or(0)));
		for n in [1usize, 2, 4] { for kind in 0..5u8 {
			match guarded(std::panic::AssertUnwindSafe(|| probe_bad_cs(kind, n))) { Ok(Some(m)) => rec.oracle_fail(m), Ok(None) => { *reached_in.entry("bad_cs_refused".into()).or_insert(0) += 1; }, Err(p) => rec.oracle_fail(format!("bad commitment_signed probe (kind {}, {} HTLCs) panicked: {}", kind, n, p.chars().take(200).collect::<String>())) }
		} }
		rec.notes.insert("bad_cs_probes_refused".into(), format!("{}", reached_in.get("bad_cs_refused").copied().unwrap_or(0)));
		for sign in [false, true] { for pc in [true, false] {
			match guarded(std::panic::AssertUnwindSafe(|| probe_signed_then_cs(sign, pc))) {
				Ok(Some((op, ans, class, viol))) => { for v in viol { rec.oracle_fail(v); } rec.case(&op, &ans, &class, true); },
				Ok(None) => rec.oracle_fail(format!("signed-then-commitment_signed probe (sign {}, persist completed {}) could not be set up", sign, pc)),
				Err(p) => rec.oracle_fail(format!("signed-then-commitment_signed probe (sign {}, persist completed {}) panicked: {}", sign, pc, p.chars().take(240).collect::<String>())),
			}
		} }
		for n_before in [0usize, 1, 2] { for kind in 0..12u8 {
			if n_before == 2 && !(args.thorough || kind <= 4) { continue; }
			match guarded(std::panic::AssertUnwindSafe(|| probe_unsolicited_raa(kind, n_before))) {
				Ok(Some((cases, viol))) => { for v in viol { rec.oracle_fail(v); } for (op, ans, class) in cases { rec.case(&op, &ans, &class, true); } },
				Ok(None) => rec.oracle_fail(format!("unsolicited revoke_and_ack probe (kind {}, after {} payments) could not be set up", kind, n_before)),
				Err(p) => rec.oracle_fail(format!("unsolicited revoke_and_ack probe (kind {}, after {} payments) panicked: {}", kind, n_before, p.chars().take(240).collect::<String>())),
			}
		} }
	}
	if args.model == "mongate" && std::env::var("VERIF_PROPERTY").map(|p| p == "C09").unwrap_or(true) {
		for second in 0..3u8 { for desc in [false, true] {
			match guarded(std::panic::AssertUnwindSafe(|| probe_second_update_while_paused(second, desc))) { Ok(Some(m)) => rec.oracle_fail(m), Ok(None) => { *rec.classes.entry("probe:second-update-while-paused:ok".into()).or_insert(0) += 1; }, Err(p) => rec.oracle_fail(format!("second-update-while-paused probe ({}, {}) panicked: {}", second, desc, p.chars().take(200).collect::<String>())) }
		} }
		for k in 0..4usize {
			match guarded(std::panic::AssertUnwindSafe(|| probe_jump_over_held(k))) { Ok(Some((_, Some(m)))) => rec.oracle_fail(m), Ok(Some((held, None))) => { *rec.classes.entry(format!("probe:jump-over-held:ok:held={}", held)).or_insert(0) += 1; }, Ok(None) => rec.oracle_fail(format!("jump-over-held probe ({} extra) could not be set up", k)), Err(p) => rec.oracle_fail(format!("preimage update ahead of held monitor updates ({} extra): panicked: {}", k, p.chars().take(200).collect::<String>())) }
		}
		for m in probe_open_orders() { rec.oracle_fail(m); }
		for local in [false, true] { for extra in 0..2usize { for inflight in [false, true] {
			match guarded(std::panic::AssertUnwindSafe(|| probe_shutdown_while_held(local, extra, inflight))) { Ok(Some((_, Some(m)))) => rec.oracle_fail(m), Ok(Some((held, None))) => { *rec.classes.entry(if held == u64::MAX { "probe:shutdown-while-held:close_channel-refused".to_string() } else { format!("probe:shutdown-while-held:ok:held={}", held) }).or_insert(0) += 1; }, Ok(None) => rec.oracle_fail(format!("shutdown-while-held probe (local={}, extra={}) could not be set up", local, extra)), Err(p) => rec.oracle_fail(format!("ShutdownScript update while monitor updates are held ({} shutdown, {} extra, persister {}): panicked: {}", if local { "local" } else { "peer-initiated" }, extra, if inflight { "InProgress" } else { "Completed" }, p.chars().take(200).collect::<String>())) }
		} } }
		let n_gate = if args.thorough { 300 } else { 30 } * args.scale as usize;
		let mut grng = Rng::new(args.seed ^ 0x9a7e);
		for g in 0..n_gate {
			let mut sub = Rng::new(grng.next());
			let steps = if args.thorough { 60 + sub.below(120) as usize } else { 40 + sub.below(60) as usize };
			if let Err(p) = guarded(std::panic::AssertUnwindSafe(|| gate_scenario(&mut sub, g, steps, &mut rec))) { rec.oracle_fail(format!("gate scenario {} (seed {}) panicked: {}", g, args.seed, p.chars().take(240).collect::<String>())); }
		}
		match guarded(std::panic::AssertUnwindSafe(probe_channel_ready_leak)) { Ok(Some(m)) => rec.oracle_fail(m), Ok(None) => { rec.notes.insert("kf_c09_1".into(), "probe did not reproduce KF-C09-1 on this tree".into()); }, Err(p) => rec.oracle_fail(format!("channel_ready probe panicked: {}", p.chars().take(300).collect::<String>())) }
	}
	// the deterministic replay of KF-C01-1 belongs to property C01 only
	if args.model == "chan" && std::env::var("VERIF_PROPERTY").map(|p| p == "C01").unwrap_or(true) {
		probe_restart_windows(args.thorough, &mut rec);
		{ let (viol, ran, fee_sent) = probe_holding_cell_fee_and_add(); for v in viol { rec.oracle_fail(v); } *rec.classes.entry("probe:holding-cell-fee+add:ran".into()).or_insert(0) += ran; *rec.classes.entry("probe:holding-cell-fee+add:update_fee-survived".into()).or_insert(0) += fee_sent; }
		match guarded(std::panic::AssertUnwindSafe(probe_fundee_limit)) { Ok(Some(m)) => rec.oracle_fail(m), Ok(None) => { rec.notes.insert("kf_c01_1".into(), "probe did not reproduce KF-C01-1 on this tree".into()); }, Err(p) => rec.oracle_fail(format!("fundee-limit probe panicked: {}", p.chars().take(200).collect::<String>())) }		match guarded(std::panic::AssertUnwindSafe(probe_holding_cell_claim_then_add)) { Ok(Some(m)) => rec.oracle_fail(m), Ok(None) => { rec.notes.insert("kf_c01_2".into(), "probe did not reproduce KF-C01-2 on this tree".into()); }, Err(p) => rec.oracle_fail(format!("holding-cell probe panicked: {}", p.chars().take(200).collect::<String>())) }
	}
	// C01 only: additional SHORT scenarios (a few operations, then the cooperative close), half of them with a fundee balance
	// around the closing dust limit
	let c01_chan = args.model == "chan" && std::env::var("VERIF_PROPERTY").map(|p| p == "C01").unwrap_or(true);
	let n_short = if c01_chan { (if args.thorough { 600 } else { 60 }) * args.scale as usize } else { 0 };
	for sc in 0..n_scen + n_short {
		let short = sc >= n_scen;
		let steps = if short { rng.below(24) as usize } else if args.thorough { 60 + rng.below(200) as usize } else { 40 + rng.below(80) as usize };
		let tiny_push = short && sc % 2 == 0;
		let async_persist = sc % 2 == 1;
		let with_disc = sc % 3 == 2 || sc % 4 == 1;
		// fee scenarios (update_fee in flight, asymmetric reserves): implementation-side oracles only, the Lean models have no fee updates
		let with_fee = sc % 6 == 4 || sc % 6 == 1;
		let mut sub = Rng::new(rng.next());
		let mut net = match guarded(std::panic::AssertUnwindSafe(|| scenario(&mut sub, steps, async_persist, with_disc, with_fee, tiny_push, c01_chan && (sc % 3 == 2 || (with_fee && with_disc))))) {
			// the send-limit exactness oracles state C01's last sentence: they are reported under C01 only
			Ok((n, viol)) => { let c01 = std::env::var("VERIF_PROPERTY").map(|p| p == "C01").unwrap_or(true); for v in viol { if c01 || !v.contains("limit") { rec.oracle_fail(format!("scenario {}: {}", sc, v)); } } n },
			Err(p) => { rec.oracle_fail(format!("scenario {} (seed {}, async={}) panicked: {}", sc, args.seed, async_persist, p.chars().take(200).collect::<String>())); continue; },
		};
		if std::env::var("VERIF_TRACE").is_ok() { eprintln!("=== scenario {}", sc); for o in &net.trace { if !matches!(o, Obs::Balance { .. }) { eprintln!("  {}", fmt_obs(o)); } } }
		// ---- impl-side oracles on the raw trace (independent of the Lean models) ---------------
		// KF-C01-2 (holding-cell release: add re-validated against a removal of the same batch): one tagged message; the closure and
		// the errors it causes afterwards are its consequences. Everything before it, and every other error/closure, stays a hard failure.
		let kf2 = kf_c01_2_pattern(&net.trace);
		if let Some(k) = kf2 { rec.oracle_fail(format!("scenario {}: {}: the peer force-closed on an update_add_htlc that left its sender in one batch with a removal (trace position {})", sc, KF_C01_2, k)); }
		for (k, o) in net.trace.iter().enumerate() { if let Obs::ProtoError { node, text } = o { if kf2.map(|k2| k > k2).unwrap_or(false) { continue; } rec.oracle_fail(format!("scenario {}: honest operation produced a protocol error at node {}: {}", sc, node, text)); } }
		if kf2.is_none() { for (n, r) in &net.closed { rec.oracle_fail(format!("scenario {}: channel closed at node {} ({}) in honest operation", sc, n, r)); } }
		let mut last_id: BTreeMap<(usize, usize), u64> = BTreeMap::new();
		let mut last_cp: BTreeMap<(usize, usize), u64> = BTreeMap::new();
		let mut last_holder: BTreeMap<(usize, usize), u64> = BTreeMap::new();
		for o in &net.trace {
			match o {
				Obs::Update { node, chan, id, kinds, .. } => {
					if let Some(prev) = last_id.get(&(*node, *chan)) { if *id != prev + 1 { rec.oracle_fail(format!("scenario {}: update ids not gap-free at n{} c{}: {} after {}", sc, node, chan, id, prev)); } }
					last_id.insert((*node, *chan), *id);
					if kinds.iter().any(|k| k.starts_with("CounterpartyCommitment")) { last_cp.insert((*node, *chan), *id); }
					if kinds.iter().any(|k| k.starts_with("HolderCommitment")) { last_holder.insert((*node, *chan), *id); }
				},
				Obs::Msg { from, kind, chan, pending, .. } if *chan != usize::MAX => {
					let dep = match *kind { "cs" | "add" | "fulfill" | "fail" | "malformed" | "fee" => last_cp.get(&(*from, *chan)), "raa" => last_holder.get(&(*from, *chan)), _ => None };
					if let Some(dep) = dep { if pending.iter().any(|p| p <= dep) { rec.oracle_fail(format!("scenario {}: n{} released {} while update {:?} (≤ the update {} it depends on) was still in flight", sc, from, kind, pending, dep)); } }
				},
				_ => {},
			}
		}
		// conservation of settled balances when quiescent
		{
			let bals: Vec<u64> = net.trace.iter().rev().filter_map(|o| if let Obs::Balance { value_to_self_msat, .. } = o { Some(*value_to_self_msat) } else { None }).take(2).collect();
			let chan_value = net.nodes[0].node.list_channels().get(0).map(|c| c.channel_value_satoshis * 1000).unwrap_or(0);
			let pending = net.nodes[0].node.list_channels().get(0).map(|c| c.pending_inbound_htlcs.len() + c.pending_outbound_htlcs.len()).unwrap_or(0);
			if bals.len() == 2 && pending == 0 && bals[0] + bals[1] != chan_value { rec.oracle_fail(format!("scenario {}: settled balances {} + {} != channel value {}", sc, bals[0], bals[1], chan_value)); }
		}

		// fee scenarios are compared against the `chan` model like the others (update_fee is modelled); the mongate model ignores fees
		if with_fee { *rec.classes.entry("scenario:fee-updates".into()).or_insert(0) += 1; let nf = net.trace.iter().filter(|o| matches!(o, Obs::Msg { kind: "fee", .. })).count() as u64; *rec.classes.entry("msg:update_fee".into()).or_insert(0) += nf; }
		// ---- op lines ----------------------------------------------------------------------------
		if args.model == "mongate" {
			rec.directive(&format!("# scenario {}", sc));
			for o in &net.trace {
				match o {
					Obs::Update { node, chan, id, kinds, in_progress, .. } => rec.case(&format!("upd s{}n{}c{} {} {} {}", sc, node, chan, id, kinds.join(","), *in_progress as u8), "ok", &format!("upd:{}", if *in_progress { "InProgress" } else { "Completed" }), true),
					Obs::Completed { node, chan, id } => rec.case(&format!("done s{}n{}c{} {}", sc, node, chan, id), "ok", "done", true),
					Obs::Msg { from, kind, chan, .. } if *chan != usize::MAX && (*kind == "cs" || *kind == "raa") => rec.case(&format!("{} s{}n{}c{}", kind, sc, from, chan), "ok", &format!("release:{}", kind), true),
					_ => {},
				}
			}
		} else {
			let first: Vec<u64> = net.trace.iter().filter_map(|o| if let Obs::Balance { node, value_to_self_msat, .. } = o { Some((*node, *value_to_self_msat)) } else { None }).take(2).map(|x| x.1).collect();
			if first.len() < 2 { rec.discarded += 1; continue; }
			let dets = net.nodes[0].node.list_channels();
			if dets.is_empty() { rec.discarded += 1; std::mem::forget(net); continue; } // channel gone (reported by the oracles above)
			let det = &dets[0];
			// the feerate the channel was OPENED with (fee scenarios change it later: the test estimator starts at 253)
			let feerate = if with_fee { 253 } else { det.feerate_sat_per_1000_weight.unwrap_or(253) };
			let ty = { let t = det.channel_type.as_ref().unwrap(); if t.supports_anchor_zero_fee_commitments() { "z" } else if t.supports_anchors_zero_fee_htlc_tx() { "a" } else { "l" } };
			rec.directive(&format!("init {} {} {} {} {} {}", first[0], first[1], feerate, 354, ty, if det.is_outbound { "a" } else { "b" }));
			let tr = &net.trace;
			// the k-th `Built` of a node (AwaitingRemoteRevoke set = build_commitment_no_status_check ran) corresponds to the
			// k-th update of that node carrying a counterparty commitment (which may reach chain::Watch later: blocked / held)
			let mut cp_updates: BTreeMap<usize, Vec<usize>> = BTreeMap::new();
			for (k, o) in tr.iter().enumerate() { if let Obs::Update { node, chan: 0, kinds, cp_commit: Some(_), .. } = o { if kinds.iter().any(|x| x.starts_with("CounterpartyCommitment")) { cp_updates.entry(*node).or_default().push(k); } } }
			let mut built_seen: BTreeMap<usize, usize> = BTreeMap::new();
			let mut emit_commit = |rec: &mut Rec, k_upd: usize| {
				if let Obs::Update { node, kinds, cp_commit: Some(cc), .. } = &tr[k_upd] {
					if !kinds.iter().any(|x| x.starts_with("CounterpartyCommitment")) { return; }
					// the batch released with the next commitment_signed of this node
					let mut adds = vec![]; let mut fu = vec![]; let mut fa = vec![]; let mut fee: Option<String> = None;
					for o2 in &tr[k_upd + 1..] {
						if let Obs::Msg { from, kind, htlc_id, amt, chan: 0, detail, .. } = o2 { if from == node {
							match *kind { "add" => adds.push(amt.to_string()), "fulfill" => fu.push(htlc_id.to_string()), "fail" | "malformed" => fa.push(htlc_id.to_string()), "fee" => { fee = detail.split("feerate=").nth(1).map(|x| x.split_whitespace().next().unwrap_or("").to_string()); }, "cs" => break, _ => {} }
						} }
					}
					// the funder decided on a new feerate: its update_fee leaves with this commitment
					if let Some(f) = &fee { rec.case(&format!("fee {} {}", nm(*node), f), "ok", "fee", true); }
					let j = |v: &Vec<String>| if v.is_empty() { "-".to_string() } else { v.join(",") };
					let mut nd: Vec<String> = { let mut v: Vec<(bool, u64)> = cc.3.clone(); v.sort(); v.iter().map(|(o, a)| format!("{}{}", if *o { "o" } else { "i" }, a)).collect() };
					if nd.is_empty() { nd.push("-".into()); }
					let key = format!("commit:adds{}:rem{}", adds.len().min(3), (fu.len() + fa.len()).min(3));
					*reached_in.entry(key.clone()).or_insert(0) += 1;
					rec.case(&format!("commit {} {} {} {}", nm(*node), j(&adds), j(&fu), j(&fa)), &format!("ok {} {} {}", cc.0, cc.1, nd.join(",")), &key, true);
				}
			};
			for (_k, o) in tr.iter().enumerate() {
				match o {
					Obs::Built { node, chan: 0 } => {
						let n = built_seen.entry(*node).or_insert(0);
						if let Some(ku) = cp_updates.get(node).and_then(|v| v.get(*n)) { emit_commit(&mut rec, *ku); }
						*n += 1;
					},
					Obs::Msg { from, kind: "cs", chan: 0, .. } => rec.case(&format!("release {}", nm(*from)), "ok", "release", true),
					Obs::Msg { from, kind: "raa", chan: 0, .. } => rec.case(&format!("raa {}", nm(*from)), "ok", "raa", true),
					Obs::Delivered { to, kind, chan: 0, errors, .. } if ["add", "fulfill", "fail", "malformed", "cs", "raa", "fee"].contains(kind) => {
						let k2 = if *kind == "malformed" { "fail" } else { kind };
						rec.case(&format!("recv {}", nm(*to)), &format!("ok {} {}", k2, if *errors == 0 { "agree" } else { "DISAGREE" }), &format!("recv:{}", k2), true);
					},
					Obs::Balance { node, chan: 0, value_to_self_msat } => rec.case(&format!("bal {}", nm(*node)), &value_to_self_msat.to_string(), "bal", false),
					// C01: the inputs and the result of the real send-side check against the model's (only while the holding cell holds no add:
					// the model has no holding cell; the adds waiting there are checked when they leave it, see `commit`)
					Obs::Event { node, text } if text.starts_with("STATS ") && c01_chan => {
						let parts: Vec<&str> = text[6..].split(" | ").collect();
						let f0: Vec<&str> = parts[0].split(' ').collect();
						if f0[2] == "0" {
							rec.case(&format!("stats {}", nm(*node)), &format!("v={} htlcs={}", f0[0], f0[1]), "stats", false);
							if !with_fee {
								rec.directive(&format!("sendcfg {} {}", nm(*node), parts[1]));
								let lm: Vec<&str> = parts[2].split(' ').collect();
								rec.case(&format!("lim {}", nm(*node)), &format!("{} {}", lm[0], lm[1]), if lm[0] == "0" { "lim:zero" } else { "lim:pos" }, false);
							}
						} else { *rec.classes.entry("stats:skipped-holding-cell".into()).or_insert(0) += 1; }
					},
					// disconnection (marker pushed by scenario()): everything queued is lost, both nodes pause the channel
					Obs::Event { node: 0, text } if text == "DISCONNECT" => rec.case("disconnect", "ok", "disconnect", true),
					// a node was persisted and reloaded (marker pushed by Net::restart_from): the model applies write + read to it (`Node.written`)
					Obs::Event { node, text } if text == "RESTARTED" && c01_chan => rec.case(&format!("restart {}", nm(*node)), "ok", "restart", true),
					// a node processes the peer's channel_reestablish (its retransmissions follow as release / raa ops)
					Obs::Delivered { to, kind: "reestablish", chan: 0, errors, .. } => rec.case(&format!("reest {}", nm(*to)), if *errors == 0 { "ok" } else { "ERROR" }, "reest", true),
					_ => {},
				}
			}
			// C01: shut the channel down cooperatively at this quiescent point (real nodes, random independent fee estimates)
			let c01 = std::env::var("VERIF_PROPERTY").map(|p| p == "C01").unwrap_or(true);
			let clean = net.closed.is_empty() && !net.trace.iter().any(|o| matches!(o, Obs::ProtoError { .. }));
			if c01 && clean {
				match guarded(std::panic::AssertUnwindSafe(|| coop_close(&mut net, 0, &mut sub))) {
					Ok(Some((op, ans, viol, class))) => { for v in viol { rec.oracle_fail(format!("scenario {}: {}", sc, v)); } rec.case(&op, &ans, &class, true); },
					Ok(None) => { *rec.classes.entry("coopclose:skipped".into()).or_insert(0) += 1; },
					Err(p) => rec.oracle_fail(format!("scenario {}: cooperative close panicked: {}", sc, p.chars().take(200).collect::<String>())),
				}
			}
		}
		std::mem::forget(net);
	}
	rec.notes.insert("rule".into(), "random schedules over 2 real nodes / 1 channel: sends at limit/min/dust-threshold/random amounts in both directions, per-message delivery in random order across the two directions, forwards/events, claims and fail-backs, Completed or InProgress persistence with out-of-order completion; op lines are the observed protocol events; distinct by op text".into());
	rec.finish();
}
