//! Scenario engine: N real nodes (ln::functional_test_utils), driven one op at a time, with every
//! peer message delivered individually through per-direction FIFO queues that the harness owns.
//! Everything observable is appended to a trace (messages, monitor updates with step kinds,
//! completions, events, broadcasts).  All objects are leaked to 'static so that nodes can be
//! reloaded in place; scenarios end with `std::mem::forget` (Node::drop assertions are not an oracle
//! here — the engine has its own).
use std::collections::{BTreeMap, BTreeSet, VecDeque};

use bitcoin::secp256k1::PublicKey;
use bitcoin::Transaction;
use lightning::chain::channelmonitor::ChannelMonitorUpdate;
use lightning::chain::ChannelMonitorUpdateStatus;
use lightning::events::{ClosureReason, Event};
use lightning::ln::channelmanager::PaymentId;
use lightning::ln::outbound_payment::RecipientOnionFields;
use lightning::ln::functional_test_utils::*;
use lightning::ln::msgs::{self, BaseMessageHandler, ChannelMessageHandler, MessageSendEvent};
use lightning::ln::types::ChannelId;
use lightning::ln::verif_hooks as vh;
use lightning::routing::router::{Path, Route, RouteHop, RouteParameters, PaymentParameters};
use lightning::types::features::{ChannelFeatures, NodeFeatures};
use lightning::types::payment::{PaymentHash, PaymentPreimage, PaymentSecret};
use lightning::util::config::UserConfig;
use lightning::util::test_utils;

pub type N = Node<'static, 'static, 'static>;

#[derive(Clone, Debug)]
pub enum Wire {
	Add(msgs::UpdateAddHTLC),
	Fulfill(msgs::UpdateFulfillHTLC),
	Fail(msgs::UpdateFailHTLC),
	Malformed(msgs::UpdateFailMalformedHTLC),
	Fee(msgs::UpdateFee),
	Commit(Vec<msgs::CommitmentSigned>),
	Raa(msgs::RevokeAndACK),
	Reestablish(msgs::ChannelReestablish),
	Ready(msgs::ChannelReady),
	ChanUpdate(msgs::ChannelUpdate),
	AnnSigs(msgs::AnnouncementSignatures),
	Shutdown(msgs::Shutdown),
	ClosingSigned(msgs::ClosingSigned),
	Error(msgs::ErrorMessage),
	Warning(msgs::WarningMessage),
}
impl Wire {
	pub fn kind(&self) -> &'static str {
		match self {
			Wire::Add(_) => "add", Wire::Fulfill(_) => "fulfill", Wire::Fail(_) => "fail", Wire::Malformed(_) => "malformed",
			Wire::Fee(_) => "fee", Wire::Commit(_) => "cs", Wire::Raa(_) => "raa", Wire::Reestablish(_) => "reestablish",
			Wire::Ready(_) => "ready", Wire::ChanUpdate(_) => "chanupd", Wire::AnnSigs(_) => "annsigs", Wire::Shutdown(_) => "shutdown",
			Wire::ClosingSigned(_) => "closingsigned", Wire::Error(_) => "error", Wire::Warning(_) => "warning",
		}
	}
	pub fn channel_id(&self) -> Option<ChannelId> {
		Some(match self {
			Wire::Add(m) => m.channel_id, Wire::Fulfill(m) => m.channel_id, Wire::Fail(m) => m.channel_id, Wire::Malformed(m) => m.channel_id,
			Wire::Fee(m) => m.channel_id, Wire::Commit(m) => m[0].channel_id, Wire::Raa(m) => m.channel_id, Wire::Reestablish(m) => m.channel_id,
			Wire::Ready(m) => m.channel_id, Wire::AnnSigs(m) => m.channel_id, Wire::Shutdown(m) => m.channel_id,
			Wire::ClosingSigned(m) => m.channel_id, Wire::Error(m) => m.channel_id, Wire::Warning(m) => m.channel_id,
			Wire::ChanUpdate(_) => return None,
		})
	}
}

/// One observable effect, in the order it was observed.
#[derive(Clone, Debug)]
pub enum Obs {
	/// node `from` queued a message for `to`
	Msg { from: usize, to: usize, kind: &'static str, chan: usize, detail: String, htlc_id: u64, amt: u64, pending: Vec<u64> },
	/// the harness delivered the oldest queued message from -> to; `errors` = protocol errors / closures it caused
	Delivered { from: usize, to: usize, kind: &'static str, chan: usize, errors: usize },
	/// node built (signed) a new counterparty commitment on chan: AwaitingRemoteRevoke went false -> true
	Built { node: usize, chan: usize },
	/// the channel generated update `id` (its state moved) but has not handed it to chain::Watch yet
	Generated { node: usize, chan: usize, id: u64 },
	/// value_to_self_msat of node's side of chan (hook), sampled by the harness
	Balance { node: usize, chan: usize, value_to_self_msat: u64 },
	/// a ChannelMonitorUpdate reached node's chain::Watch: (chan, update_id, step kinds, status returned)
	Update { node: usize, chan: usize, id: u64, kinds: Vec<&'static str>, in_progress: bool,
		/// the counterparty commitment(s) this update carries: (to_broadcaster_sat, to_countersignatory_sat, feerate, nondust (offered, amount_msat))
		cp_commit: Option<(u64, u64, u32, Vec<(bool, u64)>)> },
	/// the harness reported update `id` complete
	Completed { node: usize, chan: usize, id: u64 },
	Event { node: usize, text: String },
	Broadcast { node: usize, txid: String, n_in: usize, n_out: usize },
	/// a protocol error / warning / disconnect action was emitted by `node`
	ProtoError { node: usize, text: String },
}

pub struct PendingPay { pub hash: PaymentHash, pub preimage: PaymentPreimage, pub secret: PaymentSecret, pub amt: u64, pub id: PaymentId, pub from: usize, pub to: usize }

pub struct Net {
	pub nodes: Vec<N>,
	pub ids: Vec<PublicKey>,
	pub q: BTreeMap<(usize, usize), VecDeque<Wire>>,
	pub connected: BTreeSet<(usize, usize)>,
	pub chans: Vec<(usize, usize, ChannelId, u64)>, // (a, b, channel id, scid)
	pub trace: Vec<Obs>,
	seen_updates: BTreeMap<(usize, ChannelId), usize>,
	max_update_id: BTreeMap<(usize, usize), u64>,
	awaiting: BTreeMap<(usize, usize), bool>,
	seen_bcast: Vec<usize>,
	pub in_progress: Vec<bool>,
	pub pays: Vec<PendingPay>,
	pub claimable: Vec<Vec<(PaymentHash, u64, Option<u32>)>>, // per node: PaymentClaimable seen (hash, amount, claim_deadline)
	pub closed: Vec<(usize, String)>,
	pub events: Vec<Vec<Event>>,
	pub persisters: Vec<&'static test_utils::TestPersister>,
	/// every `BroadcastChannelUpdate` a node emitted: (node, short_channel_id, disabled flag of the update, timestamp) (C12)
	pub bcast_updates: Vec<(usize, u64, bool, u32)>,
}

pub fn leak<T>(x: T) -> &'static T { Box::leak(Box::new(x)) }

impl Net {
	pub fn new(n: usize, cfgs: Vec<Option<UserConfig>>) -> Net {
		let chanmon_cfgs = leak(create_chanmon_cfgs(n));
		let node_cfgs = leak(create_node_cfgs(n, chanmon_cfgs));
		let chanmgrs = leak(create_node_chanmgrs(n, node_cfgs, &cfgs));
		let nodes = create_network(n, node_cfgs, chanmgrs);
		let persisters: Vec<&'static test_utils::TestPersister> = chanmon_cfgs.iter().map(|c| &c.persister).collect();
		let ids: Vec<PublicKey> = nodes.iter().map(|x| x.node.get_our_node_id()).collect();
		let mut connected = BTreeSet::new();
		for i in 0..n { for j in 0..n { if i != j { connected.insert((i, j)); } } }
		Net { nodes, ids, q: BTreeMap::new(), connected, chans: vec![], trace: vec![], seen_updates: BTreeMap::new(), max_update_id: BTreeMap::new(), awaiting: BTreeMap::new(),
			seen_bcast: vec![0; n], in_progress: vec![false; n], pays: vec![], claimable: vec![vec![]; n], closed: vec![], events: (0..n).map(|_| vec![]).collect(), persisters, bcast_updates: vec![] }
	}

	pub fn idx(&self, pk: &PublicKey) -> usize { self.ids.iter().position(|x| x == pk).unwrap() }
	pub fn chan_idx(&self, id: &ChannelId) -> usize { self.chans.iter().position(|c| &c.2 == id).unwrap_or(usize::MAX) }

	/// open a confirmed, announced channel a->b (uses the library's own helpers; messages are exchanged synchronously)
	pub fn open(&mut self, a: usize, b: usize, value_sat: u64, push_msat: u64) -> usize {
		let (_, _, chan_id, _tx) = create_announced_chan_between_nodes_with_value(&self.nodes, a, b, value_sat, push_msat);
		let scid = self.nodes[a].node.list_channels().iter().find(|c| c.channel_id == chan_id).unwrap().short_channel_id.unwrap();
		self.chans.push((a, b, chan_id, scid));
		for i in 0..self.nodes.len() {
			self.nodes[i].chain_monitor.added_monitors.lock().unwrap().clear();
			let m = self.nodes[i].chain_monitor.monitor_updates.lock().unwrap();
			for (cid, v) in m.iter() { self.seen_updates.insert((i, *cid), v.len()); }
			self.seen_bcast[i] = self.nodes[i].tx_broadcaster.txn_broadcasted.lock().unwrap().len();
			let _ = self.nodes[i].node.get_and_clear_pending_events();
			let _ = self.nodes[i].node.get_and_clear_pending_msg_events();
		}
		self.chans.len() - 1
	}

	/// open a confirmed, UNANNOUNCED channel a->b (`announce_for_forwarding = false`; a's current config otherwise)
	pub fn open_private(&mut self, a: usize, b: usize, value_sat: u64, push_msat: u64) -> usize {
		let (ready, _tx) = create_unannounced_chan_between_nodes_with_value(&self.nodes, a, b, value_sat, push_msat);
		let chan_id = ready.channel_id;
		let scid = self.nodes[a].node.list_channels().iter().find(|c| c.channel_id == chan_id).unwrap().short_channel_id.unwrap();
		self.chans.push((a, b, chan_id, scid));
		for i in 0..self.nodes.len() {
			self.nodes[i].chain_monitor.added_monitors.lock().unwrap().clear();
			let m = self.nodes[i].chain_monitor.monitor_updates.lock().unwrap();
			for (cid, v) in m.iter() { self.seen_updates.insert((i, *cid), v.len()); }
			self.seen_bcast[i] = self.nodes[i].tx_broadcaster.txn_broadcasted.lock().unwrap().len();
			let _ = self.nodes[i].node.get_and_clear_pending_events();
			let _ = self.nodes[i].node.get_and_clear_pending_msg_events();
		}
		self.chans.len() - 1
	}

	/// Completed / InProgress mode of node i's persister (queue of results for the next persist calls)
	pub fn set_mode(&mut self, i: usize, in_progress: bool) {
		self.in_progress[i] = in_progress;
		let mut q = self.persisters[i].update_rets.lock().unwrap();
		q.clear();
		if in_progress { for _ in 0..256 { q.push_back(ChannelMonitorUpdateStatus::InProgress); } }
	}

	/// collect everything node i produced since the last call: messages -> queues, monitor updates, events, broadcasts
	pub fn pump(&mut self, i: usize) {
		// monitor updates first (they precede the messages they gate)
		self.collect_updates(i);
		self.note_generated(i);
		let evs = self.nodes[i].node.get_and_clear_pending_msg_events();
		self.collect_updates(i);
		self.note_generated(i);
		for ev in evs {
			let (to_pk, wires): (PublicKey, Vec<Wire>) = match ev {
				MessageSendEvent::UpdateHTLCs { node_id, updates, .. } => {
					let mut w = vec![];
					for m in updates.update_add_htlcs { w.push(Wire::Add(m)); }
					for m in updates.update_fulfill_htlcs { w.push(Wire::Fulfill(m)); }
					for m in updates.update_fail_htlcs { w.push(Wire::Fail(m)); }
					for m in updates.update_fail_malformed_htlcs { w.push(Wire::Malformed(m)); }
					if let Some(m) = updates.update_fee { w.push(Wire::Fee(m)); }
					if !updates.commitment_signed.is_empty() { w.push(Wire::Commit(updates.commitment_signed)); }
					(node_id, w)
				},
				MessageSendEvent::SendRevokeAndACK { node_id, msg } => (node_id, vec![Wire::Raa(msg)]),
				MessageSendEvent::SendChannelReestablish { node_id, msg } => (node_id, vec![Wire::Reestablish(msg)]),
				MessageSendEvent::SendChannelReady { node_id, msg } => (node_id, vec![Wire::Ready(msg)]),
				MessageSendEvent::SendChannelUpdate { node_id, msg } => (node_id, vec![Wire::ChanUpdate(msg)]),
				MessageSendEvent::SendAnnouncementSignatures { node_id, msg } => (node_id, vec![Wire::AnnSigs(msg)]),
				MessageSendEvent::SendShutdown { node_id, msg } => (node_id, vec![Wire::Shutdown(msg)]),
				MessageSendEvent::SendClosingSigned { node_id, msg } => (node_id, vec![Wire::ClosingSigned(msg)]),
				MessageSendEvent::HandleError { node_id, action } => {
					let text = format!("{:?}", action);
					let short: String = text.chars().take(200).collect();
					self.trace.push(Obs::ProtoError { node: i, text: short });
					match action {
						msgs::ErrorAction::SendErrorMessage { msg } => (node_id, vec![Wire::Error(msg)]),
						msgs::ErrorAction::DisconnectPeer { msg: Some(msg) } => (node_id, vec![Wire::Error(msg)]),
						msgs::ErrorAction::SendWarningMessage { msg, .. } => (node_id, vec![Wire::Warning(msg)]),
						_ => continue,
					}
				},
				MessageSendEvent::BroadcastChannelUpdate { msg, .. } => { self.bcast_updates.push((i, msg.contents.short_channel_id, msg.contents.channel_flags & 2 != 0, msg.contents.timestamp)); continue; },
				MessageSendEvent::BroadcastChannelAnnouncement { .. }
				| MessageSendEvent::BroadcastNodeAnnouncement { .. } | MessageSendEvent::SendGossipTimestampFilter { .. } => continue,
				other => { self.trace.push(Obs::Event { node: i, text: format!("unhandled-msg-event {}", format!("{:?}", other).chars().take(60).collect::<String>()) }); continue; },
			};
			let j = match self.ids.iter().position(|x| *x == to_pk) { Some(j) => j, None => continue };
			for w in wires {
				let chan = w.channel_id().map(|c| self.chan_idx(&c)).unwrap_or(usize::MAX);
				let detail = match &w {
					Wire::Add(m) => format!("id={} amt={} cltv={}", m.htlc_id, m.amount_msat, m.cltv_expiry),
					Wire::Fulfill(m) => format!("id={}", m.htlc_id),
					Wire::Fail(m) => format!("id={}", m.htlc_id),
					Wire::Malformed(m) => format!("id={}", m.htlc_id),
					Wire::Fee(m) => format!("feerate={}", m.feerate_per_kw),
					Wire::Raa(m) => format!("secret={}", crate::common::hex(&m.per_commitment_secret[..4])),
					Wire::Reestablish(m) => format!("next_local={} next_remote={}", m.next_local_commitment_number, m.next_remote_commitment_number),
					Wire::Error(m) => format!("{}", m.data.chars().take(80).collect::<String>()),
					Wire::Warning(m) => format!("{}", m.data.chars().take(80).collect::<String>()),
					_ => String::new(),
				};
				let (htlc_id, amt) = match &w { Wire::Add(m) => (m.htlc_id, m.amount_msat), Wire::Fulfill(m) => (m.htlc_id, 0), Wire::Fail(m) => (m.htlc_id, 0), Wire::Malformed(m) => (m.htlc_id, 0), _ => (0, 0) };
				let pending = if chan != usize::MAX { self.pending_updates(i, chan) } else { vec![] };
				self.trace.push(Obs::Msg { from: i, to: j, kind: w.kind(), chan, detail, htlc_id, amt, pending });
				if self.connected.contains(&(i, j)) { self.q.entry((i, j)).or_default().push_back(w); }
			}
		}
		// broadcasts
		let txs: Vec<Transaction> = { let b = self.nodes[i].tx_broadcaster.txn_broadcasted.lock().unwrap(); b[self.seen_bcast[i].min(b.len())..].to_vec() };
		self.seen_bcast[i] += txs.len();
		for tx in txs { self.trace.push(Obs::Broadcast { node: i, txid: tx.compute_txid().to_string(), n_in: tx.input.len(), n_out: tx.output.len() }); }
		self.nodes[i].chain_monitor.added_monitors.lock().unwrap().clear();
	}

	fn collect_updates(&mut self, i: usize) {
		let new: Vec<(ChannelId, ChannelMonitorUpdate)> = {
			let m = self.nodes[i].chain_monitor.monitor_updates.lock().unwrap();
			let mut out = vec![];
			let mut keys: Vec<&ChannelId> = m.keys().collect();
			keys.sort();
			for cid in keys {
				let v = &m[cid];
				let seen = *self.seen_updates.get(&(i, *cid)).unwrap_or(&0);
				for u in &v[seen.min(v.len())..] { out.push((*cid, u.clone())); }
			}
			out
		};
		for (cid, u) in new {
			*self.seen_updates.entry((i, cid)).or_insert(0) += 1;
			let ci = self.chan_idx(&cid);
			let e = self.max_update_id.entry((i, ci)).or_insert(0);
			if u.update_id > *e { *e = u.update_id; }
			let pending = self.nodes[i].chain_monitor.chain_monitor.list_pending_monitor_updates();
			let in_progress = pending.get(&cid).map(|v| v.contains(&u.update_id)).unwrap_or(false);
			let cp_commit = self.nodes[i].chain_monitor.chain_monitor.get_monitor(cid).ok().and_then(|m| {
				let txs = m.counterparty_commitment_txs_from_update(&u);
				txs.first().map(|t| (t.to_broadcaster_value_sat(), t.to_countersignatory_value_sat(), t.negotiated_feerate_per_kw(), t.nondust_htlcs().iter().map(|h| (h.offered, h.amount_msat)).collect()))
			});
			self.trace.push(Obs::Update { node: i, chan: self.chan_idx(&cid), id: u.update_id, kinds: vh::monitor_update_step_kinds(&u), in_progress, cp_commit });
		}
	}

	/// note updates the channel has generated but not yet released to chain::Watch (blocked / held)
	fn note_generated(&mut self, i: usize) {
		for ci in 0..self.chans.len() {
			let (a, b, cid, _) = self.chans[ci];
			if i != a && i != b { continue; }
			let peer = if i == a { b } else { a };
			if let Some(latest) = vh::channel_latest_monitor_update_id(self.nodes[i].node, &self.ids[peer], &cid) {
				let e = self.max_update_id.entry((i, ci)).or_insert(latest);
				while *e < latest { *e += 1; self.trace.push(Obs::Generated { node: i, chan: ci, id: *e }); }
			}
			if let Some(aw) = vh::channel_awaiting_remote_revoke(self.nodes[i].node, &self.ids[peer], &cid) {
				let prev = self.awaiting.insert((i, ci), aw).unwrap_or(false);
				if aw && !prev { self.trace.push(Obs::Built { node: i, chan: ci }); }
			}
		}
	}

	pub fn pump_all(&mut self) { for i in 0..self.nodes.len() { self.pump(i); } }

	/// deliver the oldest queued message i -> j; returns its kind
	pub fn deliver(&mut self, i: usize, j: usize) -> Option<&'static str> {
		let w = self.q.get_mut(&(i, j)).and_then(|q| q.pop_front())?;
		let from = self.ids[i];
		let n = &self.nodes[j].node;
		let kind = w.kind();
		let chan = w.channel_id().map(|c| self.chan_idx(&c)).unwrap_or(usize::MAX);
		let errs_before = self.trace.iter().filter(|o| matches!(o, Obs::ProtoError { .. })).count() + self.closed.len();
		let pos_before = self.trace.len();
		match w {
			Wire::Add(m) => n.handle_update_add_htlc(from, &m),
			Wire::Fulfill(m) => n.handle_update_fulfill_htlc(from, m),
			Wire::Fail(m) => n.handle_update_fail_htlc(from, &m),
			Wire::Malformed(m) => n.handle_update_fail_malformed_htlc(from, &m),
			Wire::Fee(m) => n.handle_update_fee(from, &m),
			Wire::Commit(m) => n.handle_commitment_signed_batch_test(from, &m),
			Wire::Raa(m) => { if chan != usize::MAX { self.awaiting.insert((j, chan), false); } n.handle_revoke_and_ack(from, &m) },
			Wire::Reestablish(m) => n.handle_channel_reestablish(from, &m),
			Wire::Ready(m) => n.handle_channel_ready(from, &m),
			Wire::ChanUpdate(m) => n.handle_channel_update(from, &m),
			Wire::AnnSigs(m) => n.handle_announcement_signatures(from, &m),
			Wire::Shutdown(m) => n.handle_shutdown(from, &m),
			Wire::ClosingSigned(m) => n.handle_closing_signed(from, &m),
			Wire::Error(m) => n.handle_error(from, &m),
			Wire::Warning(_) => {},
		}
		self.pump(j);
		self.pump(i);
		let errs_after = self.trace.iter().filter(|o| matches!(o, Obs::ProtoError { .. })).count() + self.closed.len();
		// record the delivery *before* the effects it caused (they were appended by the pumps above)
		self.trace.insert(pos_before, Obs::Delivered { from: i, to: j, kind, chan, errors: errs_after - errs_before });
		Some(kind)
	}

	pub fn queued(&self, i: usize, j: usize) -> usize { self.q.get(&(i, j)).map(|q| q.len()).unwrap_or(0) }
	pub fn any_queued(&self) -> Option<(usize, usize)> { self.q.iter().find(|(_, q)| !q.is_empty()).map(|(k, _)| *k) }

	/// pending update ids at node i for channel c
	pub fn pending_updates(&self, i: usize, c: usize) -> Vec<u64> {
		let cid = self.chans[c].2;
		let mut v = self.nodes[i].chain_monitor.chain_monitor.list_pending_monitor_updates().get(&cid).cloned().unwrap_or_default();
		v.sort();
		v
	}
	pub fn complete(&mut self, i: usize, c: usize, id: u64) -> bool {
		let cid = self.chans[c].2;
		let r = self.nodes[i].chain_monitor.chain_monitor.channel_monitor_updated(cid, id).is_ok();
		if r { self.trace.push(Obs::Completed { node: i, chan: c, id }); }
		self.pump(i);
		r
	}

	pub fn process_events(&mut self, i: usize) {
		let evs = self.nodes[i].node.get_and_clear_pending_events();
		for e in evs {
			let text = match &e {
				Event::PaymentClaimable { payment_hash, amount_msat, claim_deadline, .. } => { self.claimable[i].push((*payment_hash, *amount_msat, *claim_deadline)); format!("PaymentClaimable amt={} deadline={:?}", amount_msat, claim_deadline) },
				Event::PaymentClaimed { amount_msat, .. } => format!("PaymentClaimed amt={}", amount_msat),
				Event::PaymentSent { payment_hash, payment_preimage, fee_paid_msat, .. } => {
					use bitcoin::hashes::{sha256, Hash};
					let ok = sha256::Hash::hash(&payment_preimage.0).to_byte_array() == payment_hash.0;
					format!("PaymentSent fee={:?} preimage_ok={}", fee_paid_msat, ok) },
				Event::PaymentFailed { reason, .. } => format!("PaymentFailed reason={:?}", reason),
				Event::PaymentPathFailed { payment_failed_permanently, short_channel_id, .. } => format!("PaymentPathFailed perm={} scid={:?}", payment_failed_permanently, short_channel_id.map(|s| self.chans.iter().position(|c| c.3 == s))),
				Event::PaymentPathSuccessful { .. } => "PaymentPathSuccessful".to_string(),
				Event::PaymentForwarded { total_fee_earned_msat, claim_from_onchain_tx, .. } => format!("PaymentForwarded fee={:?} onchain={}", total_fee_earned_msat, claim_from_onchain_tx),
				Event::HTLCHandlingFailed { failure_type, failure_reason, .. } => format!("HTLCHandlingFailed {} reason={}", format!("{:?}", failure_type).chars().take(40).collect::<String>(), format!("{:?}", failure_reason).chars().take(80).collect::<String>()),
				Event::ChannelClosed { reason, .. } => { let r = match reason { ClosureReason::HolderForceClosed { .. } => "HolderForceClosed".to_string(), other => format!("{:?}", other).chars().take(80).collect() }; self.closed.push((i, r.clone())); format!("ChannelClosed {}", r) },
				Event::SpendableOutputs { outputs, .. } => format!("SpendableOutputs n={}", outputs.len()),
				Event::BumpTransaction(_) => "BumpTransaction".to_string(),
				other => format!("{}", format!("{:?}", other).chars().take(40).collect::<String>()),
			};
			self.trace.push(Obs::Event { node: i, text });
			self.events[i].push(e);
		}
		self.pump(i);
	}

	pub fn forward(&mut self, i: usize) {
		self.nodes[i].node.process_pending_htlc_forwards();
		self.pump(i);
	}

	/// A payment from `path[0]` to the last node of `path` over the given channel indices.
	pub fn send(&mut self, path_nodes: &[usize], path_chans: &[usize], amt_msat: u64, final_cltv_delta: u32) -> Result<usize, String> {
		let src = path_nodes[0];
		let dst = *path_nodes.last().unwrap();
		let (preimage, hash, secret) = get_payment_preimage_hash(&self.nodes[dst], Some(amt_msat), None);
		let mut hops = vec![];
		for k in 1..path_nodes.len() {
			let last = k == path_nodes.len() - 1;
			let c = self.chans[path_chans[k - 1]];
			hops.push(RouteHop { pubkey: self.ids[path_nodes[k]], node_features: NodeFeatures::empty(), short_channel_id: c.3,
				channel_features: ChannelFeatures::empty(), fee_msat: if last { amt_msat } else { 1000 }, cltv_expiry_delta: if last { final_cltv_delta } else { 48 }, maybe_announced_channel: true });
		}
		let params = PaymentParameters::from_node_id(self.ids[dst], final_cltv_delta);
		let route = Route { paths: vec![Path { hops, blinded_tail: None }], route_params: RouteParameters::from_payment_params_and_value(params, amt_msat) };
		let id = PaymentId(hash.0);
		let r = self.nodes[src].node.send_payment_with_route(route, hash, RecipientOnionFields::secret_only(secret, amt_msat), id);
		self.pump(src);
		match r {
			Ok(()) => { self.pays.push(PendingPay { hash, preimage, secret, amt: amt_msat, id, from: src, to: dst }); Ok(self.pays.len() - 1) },
			Err(e) => Err(format!("{:?}", e).chars().take(80).collect()),
		}
	}

	pub fn claim(&mut self, p: usize) { let to = self.pays[p].to; self.nodes[to].node.claim_funds(self.pays[p].preimage); self.pump(to); }
	pub fn fail_back(&mut self, p: usize) { let to = self.pays[p].to; self.nodes[to].node.fail_htlc_backwards(&self.pays[p].hash); self.pump(to); }

	pub fn disconnect(&mut self, a: usize, b: usize) {
		self.nodes[a].node.peer_disconnected(self.ids[b]);
		self.nodes[b].node.peer_disconnected(self.ids[a]);
		self.connected.remove(&(a, b)); self.connected.remove(&(b, a));
		self.q.remove(&(a, b)); self.q.remove(&(b, a));
		self.pump(a); self.pump(b);
	}
	pub fn reconnect(&mut self, a: usize, b: usize) {
		let init_b = msgs::Init { features: self.nodes[b].node.init_features(), networks: None, remote_network_address: None };
		let init_a = msgs::Init { features: self.nodes[a].node.init_features(), networks: None, remote_network_address: None };
		self.connected.insert((a, b)); self.connected.insert((b, a));
		self.nodes[a].node.peer_connected(self.ids[b], &init_b, true).unwrap();
		self.nodes[b].node.peer_connected(self.ids[a], &init_a, false).unwrap();
		self.pump(a); self.pump(b);
	}

	/// deliver everything, process forwards and events until nothing moves (bounded)
	pub fn settle(&mut self, max_rounds: usize) {
		for _ in 0..max_rounds {
			let mut moved = false;
			while let Some((i, j)) = self.any_queued() { self.deliver(i, j); moved = true; }
			for i in 0..self.nodes.len() {
				if self.nodes[i].node.needs_pending_htlc_processing() { self.forward(i); moved = true; }
				let before = self.trace.len();
				self.process_events(i);
				if self.trace.len() != before { moved = true; }
			}
			if !moved { break; }
		}
	}

	pub fn sample_balances(&mut self, c: usize) {
		let (a, b, cid, _) = self.chans[c];
		for (x, y) in [(a, b), (b, a)] {
			if let Some(v) = vh::channel_value_to_self_msat(self.nodes[x].node, &self.ids[y], &cid) { self.trace.push(Obs::Balance { node: x, chan: c, value_to_self_msat: v }); }
		}
	}

	/// serialized ChannelManager + every ChannelMonitor of node i, as they are right now
	pub fn snapshot(&self, i: usize) -> (Vec<u8>, Vec<Vec<u8>>) {
		use lightning::util::ser::Writeable;
		let mgr = self.nodes[i].node.encode();
		let mut mons = vec![];
		let mut ids = self.nodes[i].chain_monitor.chain_monitor.list_monitors();
		ids.sort();
		for cid in ids { if let Ok(m) = self.nodes[i].chain_monitor.chain_monitor.get_monitor(cid) { mons.push(m.encode()); } }
		(mgr, mons)
	}

	/// Restart node i from the given serialized manager and monitors (a crash: in-memory state is dropped,
	/// peers are disconnected). Returns Err(text) if deserialization of the manager fails.
	pub fn restart_from(&mut self, i: usize, mgr: &[u8], mons: &[Vec<u8>]) -> Result<(), String> {
		for j in 0..self.nodes.len() { if j != i && self.connected.contains(&(i, j)) {
			self.nodes[j].node.peer_disconnected(self.ids[i]);
			self.connected.remove(&(i, j)); self.connected.remove(&(j, i));
			self.q.remove(&(i, j)); self.q.remove(&(j, i));
			self.pump(j);
		} }
		let config = self.nodes[i].node.get_current_config();
		let persister: &'static test_utils::TestPersister = leak(test_utils::TestPersister::new());
		let node = &mut self.nodes[i];
		let new_chain_monitor: &'static test_utils::TestChainMonitor<'static> = leak(test_utils::TestChainMonitor::new(
			Some(node.chain_source), node.tx_broadcaster, node.logger, node.fee_estimator, persister, node.keys_manager));
		node.chain_monitor = new_chain_monitor;
		let mon_refs: Vec<&[u8]> = mons.iter().map(|m| &m[..]).collect();
		let r = crate::common::guarded(std::panic::AssertUnwindSafe(|| _reload_node(node, config, mgr, &mon_refs, None)));
		match r {
			Ok(new_mgr) => {
				let new_mgr: &'static TestChannelManager<'static, 'static> = leak(new_mgr);
				node.node = new_mgr;
				node.onion_messenger.set_offers_handler(new_mgr);
				node.onion_messenger.set_async_payments_handler(new_mgr);
				self.persisters[i] = persister;
				self.in_progress[i] = false;
				// monitor_updates of the new chain monitor start empty
				let keys: Vec<(usize, ChannelId)> = self.seen_updates.keys().filter(|k| k.0 == i).cloned().collect();
				for k in keys { self.seen_updates.insert(k, 0); }
				self.nodes[i].chain_monitor.added_monitors.lock().unwrap().clear();
				self.trace.push(Obs::Event { node: i, text: "RESTARTED".to_string() });
				self.pump(i);
				Ok(())
			},
			Err(p) => Err(p.chars().take(200).collect()),
		}
	}
	pub fn restart(&mut self, i: usize) -> Result<(), String> { let (m, mons) = self.snapshot(i); self.restart_from(i, &m, &mons) }

	pub fn channel_dump(&self, i: usize) -> Vec<String> {
		let mut v: Vec<String> = self.nodes[i].node.list_channels().iter().map(|c| {
			format!("chan={} out_cap={} in_cap={} limit={} min={} ready={} usable={} out_htlcs={} in_htlcs={}", self.chan_idx(&c.channel_id), c.outbound_capacity_msat, c.inbound_capacity_msat,
				c.next_outbound_htlc_limit_msat, c.next_outbound_htlc_minimum_msat, c.is_channel_ready, c.is_usable, c.pending_outbound_htlcs.len(), c.pending_inbound_htlcs.len())
		}).collect();
		v.sort();
		v
	}
}

pub fn fmt_obs(o: &Obs) -> String {
	match o {
		Obs::Msg { from, to, kind, chan, detail, .. } => format!("msg {}>{} {} c{} {}", from, to, kind, *chan as isize, detail),
		Obs::Delivered { from, to, kind, chan, errors } => format!("dlv {}>{} {} c{} errors={}", from, to, kind, *chan as isize, errors),
		Obs::Built { node, chan } => format!("built n{} c{}", node, chan),
		Obs::Generated { node, chan, id } => format!("gen n{} c{} id={}", node, chan, id),
		Obs::Balance { node, chan, value_to_self_msat } => format!("bal n{} c{} {}", node, chan, value_to_self_msat),
		Obs::Update { node, chan, id, kinds, in_progress, .. } => format!("upd n{} c{} id={} [{}] {}", node, *chan as isize, id, kinds.join(","), if *in_progress { "InProgress" } else { "Completed" }),
		Obs::Completed { node, chan, id } => format!("done n{} c{} id={}", node, chan, id),
		Obs::Event { node, text } => format!("ev n{} {}", node, text),
		Obs::Broadcast { node, txid, n_in, n_out } => format!("bcast n{} {} in={} out={}", node, &txid[..8], n_in, n_out),
		Obs::ProtoError { node, text } => format!("PROTOERR n{} {}", node, text),
	}
}

/// redirect the process's stdout to /dev/null (TestLogger prints every log line)
pub fn silence_stdout() {
	use std::os::unix::io::AsRawFd;
	if let Ok(f) = std::fs::OpenOptions::new().write(true).open("/dev/null") {
		unsafe { libc::dup2(f.as_raw_fd(), 1); }
	}
}
