//! ldk-verif-harness library: shared plumbing for the per-property harness binaries (src/bin/cNN.rs).
//! Each binary runs the real rust-lightning code on generated inputs and writes, per model,
//! `<model>.ops` (the line protocol fed to the Lean driver), `<model>.impl` (what the implementation
//! answered, one line per op) and `<model>.stats.json` (input distribution, oracle failures).
pub mod common;
pub mod sim;
