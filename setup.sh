#!/bin/sh
# Build the framework from files on disk only (offline): regenerate Lean from /repo, build the Lean
# library + model driver, build the Rust harness against /repo with the hook feature on.
set -e
cd "$(dirname "$0")"
export CARGO_NET_OFFLINE=true
mkdir -p run evidence replays
for g in tools/gen_*.py; do python3 "$g" || echo "generator $g failed (left to the checks to report)"; done
cp -f /repo/Cargo.lock harness/Cargo.lock
(cd harness && cargo build --offline 2>&1 | tail -3)
(cd lean && lake build LdkModel $(grep -o 'drv_[a-z0-9]*' lakefile.toml | sort -u | tr '\n' ' ') 2>&1 | tail -3)
echo setup-done
